// Package gen holds the seeded generators: shapes, decorations, floats, names.
package gen

import (
	"fmt"
	"math"
	"math/rand"
	"strconv"
	"strings"
	"unicode"
	"unicode/utf8"

	"verif/ref"
)

// Opts describes one generated tree.
type Opts struct {
	N          int     // tips
	Shape      string  // random | caterpillar | balanced | star | broom
	RootDeg    int     // 2 = rooted, 3 = unrooted, >3 = multifurcating root; 0 = choose
	MultiP     float64 // probability that an inner node groups more than two items
	Lens       string  // all | none | mixed
	LenCls     string  // float class of lengths (see Float)
	SupP       float64 // probability of a support on an inner branch
	SupCls     string
	PValP      float64 // probability of a p-value given a support
	InnerNameP float64 // probability that an unsupported inner node is named
	RootNameP  float64
	Names      string  // simple | hostile
	NodeComP   float64 // probability of comments on a node
	EdgeComP   float64 // probability of one comment on a branch that has a length
	SingleP    float64 // probability of wrapping a node into a single-child inner node
}

// Sizes is the ladder of tip counts.
var Sizes = []int{2, 3, 4, 5, 6, 7, 8, 12, 20, 40, 63, 64, 65, 127, 128, 129, 200}

func Pick[T any](r *rand.Rand, xs ...T) T { return xs[r.Intn(len(xs))] }

// Size draws a tip count between lo and hi, biased to the ladder values.
func Size(r *rand.Rand, lo, hi int) int {
	if r.Intn(3) == 0 {
		return lo + r.Intn(hi-lo+1)
	}
	var c []int
	for _, s := range Sizes {
		if s >= lo && s <= hi {
			c = append(c, s)
		}
	}
	if len(c) == 0 {
		return lo + r.Intn(hi-lo+1)
	}
	// favour small sizes: they exercise more boundary shapes per second
	i := r.Intn(len(c))
	if j := r.Intn(len(c)); j < i {
		i = j
	}
	return c[i]
}

// Tree generates a model tree.
func Tree(r *rand.Rand, o Opts) *ref.Tree {
	if o.N < 2 {
		o.N = 2
	}
	names := Names(r, o.N, o.Names)
	items := make([]*ref.Node, o.N)
	for i := range items {
		items[i] = &ref.Node{Name: names[i]}
	}
	rootDeg := o.RootDeg
	if rootDeg == 0 {
		rootDeg = Pick(r, 2, 3, 3, 3, 4, 5)
	}
	if rootDeg > o.N {
		rootDeg = o.N
	}
	if rootDeg < 2 {
		rootDeg = 2
	}
	join := func(kids []*ref.Node) *ref.Node {
		return &ref.Node{Children: append([]*ref.Node(nil), kids...)}
	}
	switch o.Shape {
	case "star":
		rootDeg = o.N
	case "caterpillar":
		// ((((a,b),c),d),e...)
		for len(items) > rootDeg {
			n := join(items[:2])
			items = append([]*ref.Node{n}, items[2:]...)
		}
	case "balanced":
		for len(items) > rootDeg {
			var next []*ref.Node
			i := 0
			for ; i+1 < len(items) && len(next)+(len(items)-i) > rootDeg; i += 2 {
				next = append(next, join(items[i:i+2]))
			}
			next = append(next, items[i:]...)
			items = next
		}
	case "broom":
		// a polytomy of m tips at the end of a caterpillar stick
		m := 3 + r.Intn(max(1, o.N/2))
		if m > o.N-rootDeg+1 {
			m = o.N - rootDeg + 1
		}
		if m >= 2 {
			n := join(items[:m])
			items = append([]*ref.Node{n}, items[m:]...)
		}
		for len(items) > rootDeg {
			n := join(items[:2])
			items = append([]*ref.Node{n}, items[2:]...)
		}
	default: // random
		for len(items) > rootDeg {
			k := 2
			if r.Float64() < o.MultiP {
				k = 3 + r.Intn(4)
			}
			if k > len(items)-rootDeg+1 {
				k = len(items) - rootDeg + 1
			}
			if k < 2 {
				break
			}
			r.Shuffle(len(items), func(i, j int) { items[i], items[j] = items[j], items[i] })
			n := join(items[:k])
			items = append(items[k:], n)
		}
	}
	r.Shuffle(len(items), func(i, j int) { items[i], items[j] = items[j], items[i] })
	root := join(items)
	t := &ref.Tree{Root: root}
	if o.SingleP > 0 {
		addSingles(r, root, o.SingleP)
	}
	Decorate(r, t, o)
	return t
}

func addSingles(r *rand.Rand, n *ref.Node, p float64) {
	for i, c := range n.Children {
		addSingles(r, c, p)
		for r.Float64() < p {
			c = &ref.Node{Children: []*ref.Node{c}}
			n.Children[i] = c
		}
	}
}

// Decorate assigns lengths, supports, p-values, names and comments according to o.
func Decorate(r *rand.Rand, t *ref.Tree, o Opts) {
	used := map[string]bool{}
	for _, n := range t.Tips() {
		used[n] = true
	}
	inner := 0
	var rec func(n *ref.Node, root bool)
	rec = func(n *ref.Node, root bool) {
		if !root {
			switch o.Lens {
			case "all":
				n.Len = ref.N(Float(r, o.LenCls))
			case "mixed":
				if r.Intn(2) == 0 {
					n.Len = ref.N(Float(r, o.LenCls))
				}
			}
		}
		if !n.IsTip() {
			inner++
			if !root && r.Float64() < o.SupP {
				n.Sup = ref.N(Float(r, o.SupCls))
				if r.Float64() < o.PValP {
					n.PVal = ref.N(Float(r, o.SupCls))
				}
			} else if (!root && r.Float64() < o.InnerNameP) || (root && r.Float64() < o.RootNameP) {
				for {
					nm := InnerName(r, o.Names, inner)
					if !used[nm] {
						used[nm] = true
						n.Name = nm
						break
					}
				}
			}
		}
		if r.Float64() < o.NodeComP {
			for k := 1 + r.Intn(3); k > 0; k-- {
				n.NodeComments = append(n.NodeComments, Comment(r))
			}
		}
		if !root && n.Len.Has && r.Float64() < o.EdgeComP {
			n.EdgeComments = []string{Comment(r)}
		}
		for _, c := range n.Children {
			rec(c, false)
		}
	}
	rec(t.Root, true)
}

// ---------------------------------------------------------------------------------------------
// Floats

// Float draws a finite float64 different from the -1 sentinel.
//
//	classes: int, dec, unit (0..1), len (1e-6..1e3 plus zeros), any (random finite bits),
//	edge (subnormals, huge, negative, -0, sentinel neighbours), mix
func Float(r *rand.Rand, cls string) float64 {
	for {
		v := float1(r, cls)
		if v != -1 && !math.IsNaN(v) && !math.IsInf(v, 0) {
			return v
		}
	}
}

func float1(r *rand.Rand, cls string) float64 {
	switch cls {
	case "int":
		return float64(r.Intn(101))
	case "dec":
		d := r.Intn(8)
		v, _ := strconv.ParseFloat(fmt.Sprintf("%d.%0*d", r.Intn(5), d+1, r.Intn(int(math.Pow10(d+1)))), 64)
		return v
	case "unit":
		switch r.Intn(6) {
		case 0:
			return 0
		case 1:
			return 1
		case 2:
			return float64(r.Intn(101)) / 100
		}
		return r.Float64()
	case "len":
		switch r.Intn(8) {
		case 0:
			return 0
		case 1:
			return float64(1+r.Intn(20)) / 4 // many exact ties
		}
		return math.Exp(r.Float64()*math.Log(1e9)) * 1e-6
	case "tie":
		// small grid: exact ties and exact binary arithmetic
		return float64(r.Intn(9)) / 4
	case "neg":
		// negative branch lengths are legal Newick (neighbour-joining trees have them); -1 itself is excluded by Float
		// random mantissas: sums of a few of them never hit -1 exactly (a merged branch of length exactly -1
		// would be indistinguishable from "no length", the sentinel of the data structure)
		if r.Intn(3) == 0 {
			return -(0.01 + 0.9*r.Float64())
		}
		return 2 * r.Float64()
	case "any":
		return math.Float64frombits(r.Uint64())
	case "edge":
		switch r.Intn(12) {
		case 0:
			return math.SmallestNonzeroFloat64
		case 1:
			return math.Float64frombits(uint64(r.Intn(1 << 20))) // subnormal
		case 2:
			return 1e300 * (1 + r.Float64())
		case 3:
			return 1e-300 * (1 + r.Float64())
		case 4:
			return math.Copysign(0, -1)
		case 5:
			return math.Nextafter(-1, 0)
		case 6:
			return math.Nextafter(-1, -2)
		case 7:
			return -r.Float64() * 10
		case 8:
			return math.MaxFloat64
		case 9:
			return float64(r.Int63())
		case 10:
			return 0.1 + 0.2
		}
		return -float64(2 + r.Intn(100))
	default: // mix
		return float1(r, Pick(r, "int", "dec", "dec", "unit", "len", "any", "edge"))
	}
}

// ---------------------------------------------------------------------------------------------
// Names and comments

var hostileAlphabet = []rune("abcXYZ019_-.|/\\'\"#@!$%^&*+=<>?~{}`éßñøЖщ中文字😀🌲 x")

func validName(s string) bool {
	if s == "" || !utf8.ValidString(s) || strings.ContainsAny(s, "()[],:;\x00") {
		return false
	}
	f, _ := utf8.DecodeRuneInString(s)
	l, _ := utf8.DecodeLastRuneInString(s)
	if unicode.IsSpace(f) || unicode.IsSpace(l) {
		return false
	}
	// gotree trims with strings.TrimSpace; keep names it would not alter
	return strings.TrimSpace(s) == s
}

// NumericLooking reports whether gotree's reader would take the label of an inner node for a support.
func NumericLooking(s string) bool {
	if _, err := strconv.ParseFloat(s, 64); err == nil {
		return true
	}
	p := strings.Split(s, "/")
	if len(p) == 2 {
		_, e1 := strconv.ParseFloat(p[0], 64)
		_, e2 := strconv.ParseFloat(p[1], 64)
		return e1 == nil && e2 == nil
	}
	return false
}

var numericTipNames = []string{"12", "1e5", "-0.5", "nan", "Inf", "0x1p-2", "007", "1/2", ".5", "+3", "1_0", "infinity"}

func hostile1(r *rand.Rand) string {
	for {
		var b strings.Builder
		switch r.Intn(10) {
		case 0:
			b.WriteString(Pick(r, numericTipNames...))
		case 1: // inner blank
			b.WriteString("a")
			b.WriteString(Pick(r, " ", "  ", "\t", " \t "))
			b.WriteString("b")
		default:
			for k := 1 + r.Intn(10); k > 0; k-- {
				b.WriteRune(hostileAlphabet[r.Intn(len(hostileAlphabet))])
			}
		}
		if s := b.String(); validName(s) {
			return s
		}
	}
}

// Names returns n unique tip names.
func Names(r *rand.Rand, n int, cls string) []string {
	out := make([]string, 0, n)
	used := map[string]bool{}
	if cls == "hostile" && r.Intn(4) == 0 {
		cls = "related"
	}
	for i := 0; len(out) < n; i++ {
		var s string
		switch cls {
		case "related":
			// names that are close to each other: same letters in another case, prefixes and extensions of one
			// another, numbers written differently
			base := []string{"a", "ab", "tip", "Homo", "x1", "n", "sp"}[(i/9)%7] + strings.Repeat("q", i/63)
			switch i % 9 {
			case 0:
				s = base
			case 1:
				s = strings.ToUpper(base)
			case 2:
				s = strings.ToUpper(base[:1]) + base[1:] + "_"
			case 3:
				s = base + base
			case 4:
				s = base + "_1"
			case 5:
				s = base + "_10"
			case 6:
				s = base + "_01"
			case 7:
				s = "_" + base
			default:
				s = base + "."
			}
		case "hostile":
			s = hostile1(r)
			if used[s] {
				s = s + "_" + strconv.Itoa(i)
			}
		case "pad":
			s = fmt.Sprintf("T%04d", i)
		default:
			s = "t" + strconv.Itoa(i)
		}
		if !used[s] {
			used[s] = true
			out = append(out, s)
		}
	}
	r.Shuffle(len(out), func(i, j int) { out[i], out[j] = out[j], out[i] })
	return out
}

// InnerName returns a non numeric-looking label.
func InnerName(r *rand.Rand, cls string, k int) string {
	for {
		var s string
		if cls == "hostile" {
			s = hostile1(r)
		} else {
			s = "n" + strconv.Itoa(k) + Pick(r, "", "a", "_x")
		}
		if !NumericLooking(s) {
			return s
		}
	}
}

var commentAlphabet = []rune("abc &=\"':;,()[{}0.5/ \t\n!é中😀")

// Comment returns text free of ']' (and NUL).
func Comment(r *rand.Rand) string {
	switch r.Intn(8) {
	case 0:
		return ""
	case 1:
		return "&date=\"2020.5\""
	case 2:
		return "&&NHX:S=human:E=1.1.1.1"
	}
	var b strings.Builder
	for k := 1 + r.Intn(12); k > 0; k-- {
		b.WriteRune(commentAlphabet[r.Intn(len(commentAlphabet))])
	}
	return b.String()
}

func max(a, b int) int {
	if a > b {
		return a
	}
	return b
}
