// Package mon holds the monitors: structure walker, index monitor, converters between the live
// gotree structure (observed through its public accessors only) and the reference model.
package mon

import (
	"fmt"
	"sort"

	"github.com/evolbioinfo/gotree/tree"

	"verif/ref"
)

// Build constructs a gotree tree from the model through the public construction API.
func Build(r *ref.Tree) *tree.Tree {
	t := tree.NewTree()
	var rec func(m *ref.Node, parent *tree.Node) *tree.Node
	rec = func(m *ref.Node, parent *tree.Node) *tree.Node {
		n := t.NewNode()
		n.SetName(m.Name)
		for _, c := range m.NodeComments {
			n.AddComment(c)
		}
		if parent != nil {
			e := t.ConnectNodes(parent, n)
			if m.Len.Has {
				e.SetLength(m.Len.V)
			}
			if m.Sup.Has {
				e.SetSupport(m.Sup.V)
			}
			if m.PVal.Has {
				e.SetPValue(m.PVal.V)
			}
			for _, c := range m.EdgeComments {
				e.AddComment(c)
			}
		}
		for _, c := range m.Children {
			rec(c, n)
		}
		return n
	}
	t.SetRoot(rec(r.Root, nil))
	return t
}

func num(v, nilv float64) ref.Num {
	if v == nilv {
		return ref.Num{}
	}
	return ref.N(v)
}

// FromTree reads the live structure through Root/Neigh/Edges and the decoration accessors.
// It does not validate; use Walk for that. Guarded against cycles by a node budget.
func FromTree(t *tree.Tree) (*ref.Tree, error) {
	budget := 50_000_000
	var rec func(n, prev *tree.Node, e *tree.Edge) (*ref.Node, error)
	rec = func(n, prev *tree.Node, e *tree.Edge) (*ref.Node, error) {
		budget--
		if budget < 0 {
			return nil, fmt.Errorf("walk does not end (cycle?)")
		}
		m := &ref.Node{Name: n.Name(), NodeComments: append([]string(nil), n.Comments()...)}
		if e != nil {
			m.Len = num(e.Length(), tree.NIL_LENGTH)
			m.Sup = num(e.Support(), tree.NIL_SUPPORT)
			m.PVal = num(e.PValue(), tree.NIL_PVALUE)
			m.EdgeComments = append([]string(nil), e.Comments()...)
		}
		ne, ed := n.Neigh(), n.Edges()
		if len(ne) != len(ed) {
			return nil, fmt.Errorf("neighbour and branch lists of different length")
		}
		for i, c := range ne {
			if c == prev && prev != nil {
				continue
			}
			ch, err := rec(c, n, ed[i])
			if err != nil {
				return nil, err
			}
			m.Children = append(m.Children, ch)
		}
		return m, nil
	}
	if t.Root() == nil {
		return nil, fmt.Errorf("nil root")
	}
	r, err := rec(t.Root(), nil, nil)
	if err != nil {
		return nil, err
	}
	return &ref.Tree{Root: r}, nil
}

// Problem is one broken invariant.
type Problem struct {
	Kind   string
	Detail string
}

// Walked is what the structure walker saw.
type Walked struct {
	Nodes    []*tree.Node
	Tips     []*tree.Node
	Edges    []*tree.Edge // every branch once, in DFS order
	TipEdges int
	Parent   map[*tree.Node]*tree.Node
	Asserts  int
}

func nodeLabel(n *tree.Node) string {
	if n == nil {
		return "<nil>"
	}
	if n.Name() != "" {
		return fmt.Sprintf("%q", n.Name())
	}
	return fmt.Sprintf("inner(deg %d)", n.Nneigh())
}

// Walk performs the DFS from Root() and checks every structural invariant of C03 that can be
// seen through the public accessors. checkEnum additionally compares the enumeration helpers.
func Walk(t *tree.Tree, checkEnum bool) (*Walked, []Problem) {
	w := &Walked{Parent: map[*tree.Node]*tree.Node{}}
	var ps []Problem
	bad := func(kind, f string, a ...interface{}) {
		if len(ps) < 10 {
			ps = append(ps, Problem{kind, fmt.Sprintf(f, a...)})
		}
	}
	root := t.Root()
	if root == nil {
		bad("nil_root", "Root() is nil")
		return w, ps
	}
	seen := map[*tree.Node]bool{}
	seenE := map[*tree.Edge]bool{}
	var rec func(n, prev *tree.Node) bool
	rec = func(n, prev *tree.Node) bool {
		if seen[n] {
			bad("cycle", "node %s reached twice", nodeLabel(n))
			return false
		}
		seen[n] = true
		w.Nodes = append(w.Nodes, n)
		w.Parent[n] = prev
		ne, ed := n.Neigh(), n.Edges()
		w.Asserts++
		if len(ne) != len(ed) {
			bad("parallel_slices", "node %s: %d neighbours, %d branches", nodeLabel(n), len(ne), len(ed))
			return false
		}
		if len(ne) == 1 && prev != nil {
			w.Tips = append(w.Tips, n)
		}
		if len(ne) == 1 && prev == nil {
			// root with one neighbour counts as a tip for Tip(); keep note
			w.Tips = append(w.Tips, n)
		}
		nprev := 0
		for i, c := range ne {
			e := ed[i]
			w.Asserts += 4
			if c == nil || e == nil {
				bad("nil_link", "node %s has a nil neighbour/branch at %d", nodeLabel(n), i)
				return false
			}
			if c == n {
				bad("self_loop", "node %s is its own neighbour", nodeLabel(n))
				return false
			}
			l, r := e.Left(), e.Right()
			if !((l == n && r == c) || (l == c && r == n)) {
				bad("edge_ends", "branch %d of node %s joins %s-%s, expected %s-%s", i, nodeLabel(n), nodeLabel(l), nodeLabel(r), nodeLabel(n), nodeLabel(c))
				return false
			}
			// symmetric adjacency with the identical *Edge
			back := -1
			for j, x := range c.Neigh() {
				if x == n {
					back = j
					break
				}
			}
			if back < 0 || back >= len(c.Edges()) || c.Edges()[back] != e {
				bad("asymmetric", "neighbour %s of %s does not list it back with the same branch", nodeLabel(c), nodeLabel(n))
				return false
			}
			if c == prev {
				nprev++
				continue
			}
			if l != n {
				bad("orientation", "branch %s-%s does not point away from the root", nodeLabel(n), nodeLabel(c))
			}
			if seenE[e] {
				bad("edge_twice", "one branch object reached twice")
				return false
			}
			seenE[e] = true
			w.Edges = append(w.Edges, e)
			if len(c.Neigh()) == 1 {
				w.TipEdges++
			}
			if !rec(c, n) {
				return false
			}
		}
		if prev != nil && nprev != 1 {
			bad("parent_links", "node %s lists its parent %d times", nodeLabel(n), nprev)
			return false
		}
		return true
	}
	if !rec(root, nil) {
		return w, ps
	}
	w.Asserts++
	if len(w.Edges) != len(w.Nodes)-1 {
		bad("edge_count", "%d branches for %d nodes", len(w.Edges), len(w.Nodes))
	}
	if checkEnum {
		cmpN := func(name string, got []*tree.Node, want []*tree.Node) {
			w.Asserts++
			if !sameSet(nodePtrs(got), nodePtrs(want)) {
				bad("enum_"+name, "%s() returns %d items, walk found %d (or different ones)", name, len(got), len(want))
			}
		}
		cmpN("Nodes", t.Nodes(), w.Nodes)
		var wtips []*tree.Node
		for _, n := range w.Nodes {
			if len(n.Neigh()) == 1 {
				wtips = append(wtips, n)
			}
		}
		cmpN("Tips", t.Tips(), wtips)
		var tipE, intE []*tree.Edge
		for _, e := range w.Edges {
			if len(e.Right().Neigh()) == 1 {
				tipE = append(tipE, e)
			} else {
				intE = append(intE, e)
			}
		}
		cmpE := func(name string, got, want []*tree.Edge) {
			w.Asserts++
			if !sameSet(edgePtrs(got), edgePtrs(want)) {
				bad("enum_"+name, "%s() returns %d items, walk found %d (or different ones)", name, len(got), len(want))
			}
		}
		all := t.Edges()
		cmpE("Edges", all, w.Edges)
		te, ie := t.TipEdges(), t.InternalEdges()
		cmpE("TipEdges", te, tipE)
		cmpE("InternalEdges", ie, intE)
		w.Asserts++
		if len(te)+len(ie) != len(all) {
			bad("enum_partition", "Edges=%d but InternalEdges=%d + TipEdges=%d", len(all), len(ie), len(te))
		}
	}
	return w, ps
}

func nodePtrs(x []*tree.Node) []string {
	o := make([]string, len(x))
	for i, p := range x {
		o[i] = fmt.Sprintf("%p", p)
	}
	sort.Strings(o)
	return o
}

func edgePtrs(x []*tree.Edge) []string {
	o := make([]string, len(x))
	for i, p := range x {
		o[i] = fmt.Sprintf("%p", p)
	}
	sort.Strings(o)
	return o
}

func sameSet(a, b []string) bool {
	if len(a) != len(b) {
		return false
	}
	for i := range a {
		if a[i] != b[i] {
			return false
		}
	}
	return true
}

// ExpectedText is the model of what the Newick writer is specified to emit for a walked structure:
// a support is only written next to an unnamed child node; everything else as is.
func ExpectedText(m *ref.Tree) *ref.Tree {
	c := m.Clone()
	var rec func(n *ref.Node, root bool)
	rec = func(n *ref.Node, root bool) {
		if root {
			n.Len, n.Sup, n.PVal, n.EdgeComments = ref.Num{}, ref.Num{}, ref.Num{}, nil
		}
		if n.Name != "" || !n.Sup.Has {
			n.Sup, n.PVal = ref.Num{}, ref.Num{}
		}
		if !n.Len.Has && len(n.EdgeComments) > 0 {
			// the writer emits branch comments right after node comments when there is no length;
			// a reader then sees them as node comments
			n.NodeComments = append(n.NodeComments, n.EdgeComments...)
			n.EdgeComments = nil
		}
		for _, ch := range n.Children {
			rec(ch, false)
		}
	}
	rec(c.Root, true)
	return c
}
