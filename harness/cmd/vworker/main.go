// vworker runs a slice of the case list of one property in an isolated process.
// Protocol on stdout (unbuffered): "BEGIN <idx>" before a case, "END <idx> <json>" after it.
package main

import (
	"encoding/json"
	"flag"
	"fmt"
	"io"
	"log"
	"os"
	"sync/atomic"
	"syscall"
	"time"

	"verif/props"
)

func main() {
	prop := flag.String("prop", "", "property id")
	tier := flag.String("tier", "quick", "quick|thorough")
	seed := flag.Int64("seed", 1, "VERIF_SEED")
	from := flag.Int("from", 0, "first case index")
	to := flag.Int("to", -1, "one past the last case index")
	count := flag.Bool("count", false, "print the number of cases and the chunk size")
	meta := flag.Bool("meta", false, "print the property metadata as JSON")
	flag.Parse()

	p := props.Registry[*prop]
	if p == nil {
		fmt.Fprintf(os.Stderr, "unknown property %q (have %v)\n", *prop, props.IDs())
		os.Exit(3)
	}
	ctx := &props.Ctx{Seed: *seed, Tier: *tier, Gotree: os.Getenv("VERIF_GOTREE"), Tmp: os.Getenv("VERIF_TMP")}
	if *meta {
		b, _ := json.Marshal(map[string]interface{}{
			"id": p.ID, "count": p.Count(ctx), "chunk": p.Chunk, "needs_cli": p.NeedsCLI, "race": p.Race,
			"rule": p.Rule, "assumptions": p.Assumptions, "min_nontrivial_frac": p.MinNontrivialFrac,
			"exhaustive": p.Exhaustive,
		})
		fmt.Println(string(b))
		return
	}
	if *count {
		fmt.Println(p.Count(ctx), p.Chunk)
		return
	}
	// gotree logs through the standard logger; keep it out of the protocol stream and quiet.
	if os.Getenv("VERIF_KEEPLOG") == "" {
		log.SetOutput(io.Discard)
	}
	if ctx.Tmp == "" {
		d, err := os.MkdirTemp("", "vworker")
		if err != nil {
			panic(err)
		}
		ctx.Tmp = d
		defer os.RemoveAll(d)
	}
	n := p.Count(ctx)
	if *to < 0 || *to > n {
		*to = n
	}
	out := os.Stdout
	var caseStart atomic.Value // float64 CPU seconds at the start of the running case
	caseStart.Store(cpuSeconds())
	if p.CPULimit > 0 {
		go func() {
			for {
				time.Sleep(200 * time.Millisecond)
				if cpuSeconds()-caseStart.Load().(float64) > p.CPULimit {
					fmt.Fprintf(os.Stderr, "verif: cpu bound exceeded: one case burnt more than %.0f CPU seconds\n", p.CPULimit)
					os.Exit(97)
				}
			}
		}()
	}
	for i := *from; i < *to; i++ {
		caseStart.Store(cpuSeconds())
		fmt.Fprintf(out, "BEGIN %d\n", i)
		o := props.RunCase(p, ctx, i)
		b, err := json.Marshal(o)
		if err != nil {
			b, _ = json.Marshal(&props.Obs{Idx: i, Inconclusive: "marshal: " + err.Error()})
		}
		fmt.Fprintf(out, "END %d %s\n", i, b)
	}
	fmt.Fprintln(out, "DONE")
}

func cpuSeconds() float64 {
	var ru syscall.Rusage
	if err := syscall.Getrusage(syscall.RUSAGE_SELF, &ru); err != nil {
		return 0
	}
	return float64(ru.Utime.Sec+ru.Stime.Sec) + float64(ru.Utime.Usec+ru.Stime.Usec)/1e6
}
