package props

import (
	"bufio"
	"encoding/json"
	"fmt"
	"math/rand"
	"regexp"
	"strings"

	"github.com/evolbioinfo/gotree/io/nexus"
	"github.com/evolbioinfo/gotree/io/phyloxml"
	"github.com/evolbioinfo/gotree/io/utils"
	"github.com/evolbioinfo/gotree/tree"

	"verif/gen"
	"verif/ref"
)

func init() {
	Register(&Prop{
		ID:       "C13",
		Chunk:    25,
		NeedsCLI: true,
		Race:     false,
		Count: func(c *Ctx) int {
			if c.Thorough() {
				return 30000
			}
			return 1500
		},
		Rule: "case = list of 1..20 trees with labels legal in Newick, Nexus and PhyloXML; conversion chains Newick -> Nexus (with/without translate) -> Newick and Newick -> PhyloXML -> Newick through the library writers/readers and (every 6th case) gotree reformat (input as it is, gzipped in one or two members, with Windows line ends or without final newline); the written Nexus document once more with its TRANSLATE command laid out the way other programs write it (commas, ';' after the last pair, one line, tabs, lower-case keywords; all trees under one name); multi-tree documents of each format (Newick streams with multi-line trees, blank lines, trailing blanks, no final newline; Nexus; PhyloXML; Nextstrain JSON from an own emitter) read by ReadMultiTrees and ReadTreeReader; non-trivial = a tree with an inner branch, lengths and a support went through all chains and the list has >= 2 trees; distinct by the document text",
		Assumptions: []string{
			"labels: unique, no blanks, '=', quotes, XML metacharacters, Newick metacharacters, not a Nexus keyword (quantifier of C13)",
			"compared: ordered shape, names, lengths (bitwise), supports; p-values and comments are outside C13",
			"each Newick tree ends with ';' at the end of a line (documented splitting rule); every case runs in a child process because the reader goroutine cannot be recovered",
		},
		Run: runC13,
	})
}

var c13Alphabet = []rune("abcdefXYZ0123456789_.-|+*!?@$%^~{}#/éßñЖ中")

var nexusKeywords = map[string]bool{"#NEXUS": true, "BEGIN": true, "DATA": true, "CHARACTERS": true, "TAXA": true, "TAXLABELS": true, "TREES": true,
	"TREE": true, "TRANSLATE": true, "DIMENSIONS": true, "NTAX": true, "NCHAR": true, "FORMAT": true, "DATATYPE": true, "MISSING": true,
	"GAP": true, "MATRIX": true, "END": true}

func c13Name(r *rand.Rand) string {
	for {
		var b strings.Builder
		switch r.Intn(8) {
		case 0:
			b.WriteString(gen.Pick(r, "12", "007", "1e5", "-0.5", "end1", "tree_", "Begin2", "taxa.x"))
		default:
			for k := 1 + r.Intn(8); k > 0; k-- {
				b.WriteRune(c13Alphabet[r.Intn(len(c13Alphabet))])
			}
		}
		s := b.String()
		if !nexusKeywords[strings.ToUpper(s)] {
			return s
		}
	}
}

// strip keeps what C13 compares.
func c13Strip(m *ref.Tree, keepInnerSupport bool) *ref.Tree {
	c := m.Clone()
	for i, nd := range allNodes(c) {
		nd.PVal = ref.Num{}
		nd.NodeComments, nd.EdgeComments = nil, nil
		if i == 0 {
			nd.Len, nd.Sup = ref.Num{}, ref.Num{}
		}
		if nd.IsTip() {
			nd.Sup = ref.Num{}
		}
	}
	return c
}

type nsNode struct {
	Name     string             `json:"name,omitempty"`
	Attrs    map[string]float64 `json:"node_attrs"`
	Children []*nsNode          `json:"children,omitempty"`
}

// nextstrainJSON is the harness' own emitter (cumulative divergence).
func nextstrainJSON(m *ref.Tree) string {
	var rec func(n *ref.Node, div float64) *nsNode
	rec = func(n *ref.Node, div float64) *nsNode {
		d := div + n.Len.Z()
		x := &nsNode{Name: n.Name, Attrs: map[string]float64{"div": d}}
		for _, c := range n.Children {
			x.Children = append(x.Children, rec(c, d))
		}
		return x
	}
	b, _ := json.Marshal(map[string]interface{}{"version": "v2", "meta": map[string]string{"title": "verif"}, "tree": rec(m.Root, 0)})
	return string(b)
}

type rec13 struct {
	id  int
	m   *ref.Tree
	err error
}

func readMulti(doc string, format int) []rec13 {
	var out []rec13
	for t := range utils.ReadMultiTrees(bufio.NewReader(strings.NewReader(doc)), format) {
		r := rec13{id: t.Id, err: t.Err}
		if t.Tree != nil && t.Err == nil {
			r.m = modelOf(t.Tree)
		}
		out = append(out, r)
	}
	return out
}

func runC13(c *Ctx, idx int, o *Obs) {
	r := c.Rng("C13", idx)
	ntax := gen.Size(r, 2, 40)
	ntrees := 1 + r.Intn(gen.Pick(r, 1, 4, 20))
	// labels
	used := map[string]bool{}
	var names []string
	for len(names) < ntax {
		s := c13Name(r)
		if !used[s] {
			used[s] = true
			names = append(names, s)
		}
	}
	var models []*ref.Tree
	var texts []string
	rich := false
	for i := 0; i < ntrees; i++ {
		m := gen.Tree(r, gen.Opts{N: ntax, Shape: gen.Pick(r, "random", "random", "caterpillar", "balanced", "star"), RootDeg: gen.Pick(r, 0, 2, 3),
			MultiP: gen.Pick(r, 0.0, 0.3), Lens: gen.Pick(r, "all", "all", "mixed", "none"), LenCls: gen.Pick(r, "len", "dec", "any", "edge"),
			SupP: gen.Pick(r, 0.0, 0.5, 1.0), SupCls: gen.Pick(r, "unit", "int", "dec")})
		p := r.Perm(ntax)
		for j, tp := range modelTips(m) {
			tp.Name = names[p[j]]
		}
		// inner names from the same alphabet (an inner node has a name or a support)
		for _, nd := range allNodes(m)[1:] {
			if !nd.IsTip() && !nd.Sup.Has && r.Intn(4) == 0 {
				for {
					s := c13Name(r)
					if !used[s] && !gen.NumericLooking(s) {
						used[s] = true
						nd.Name = s
						break
					}
				}
			}
		}
		// a labelled root (e.g. an outgroup-rooted tree whose root was named) must keep its name as well
		if r.Intn(3) == 0 {
			for {
				s := c13Name(r)
				if !used[s] && !gen.NumericLooking(s) {
					used[s] = true
					m.Root.Name = s
					break
				}
			}
		}
		models = append(models, m)
		texts = append(texts, m.Newick())
		hasInner, hasSup := false, false
		for _, nd := range allNodes(m)[1:] {
			if !nd.IsTip() {
				hasInner = true
				hasSup = hasSup || nd.Sup.Has
			}
		}
		if hasInner && hasSup && strings.Contains(texts[i], ":") {
			rich = true
		}
	}
	doc := strings.Join(texts, "\n") + "\n"
	o.Sample = Trunc(doc, 500)
	o.SetFP(doc)
	o.Class = fmt.Sprintf("trees%d", ntrees)
	o.Nontrivial = rich && ntrees >= 2

	same := func(kind, what string, want, got *ref.Tree, witness string) bool {
		d := ref.Diff(c13Strip(want, true).Root, c13Strip(got, true).Root, "root", true)
		return o.Check(d == "", kind, what+": "+d, Trunc(witness, 4000))
	}
	mkTrees := func() []*tree.Tree {
		var ts []*tree.Tree
		for _, s := range texts {
			ts = append(ts, mustParse(s))
		}
		return ts
	}

	// ---- Nexus chain (library) ---------------------------------------------------------------
	var nexusDoc string
	for _, translate := range []bool{false, true} {
		nx, err := nexus.WriteNexus(chanOf(mkTrees()...), translate)
		o.Ev("WriteNexus", 1)
		what := fmt.Sprintf("Newick->Nexus(translate=%v)->Newick", translate)
		if !o.Check(err == nil, "nexus_write_error", what+": "+fmt.Sprint(err), doc) {
			continue
		}
		if !translate {
			nexusDoc = nx
		}
		n, err := nexus.NewParser(strings.NewReader(nx)).Parse()
		if !o.Check(err == nil, "nexus_read_error", what+": "+fmt.Sprint(err), nx) {
			continue
		}
		if !o.Check(n.NTrees() == ntrees, "nexus_tree_count", fmt.Sprintf("%s: %d trees read, %d written", what, n.NTrees(), ntrees), nx) {
			continue
		}
		i := 0
		n.IterateTrees(func(name string, t *tree.Tree) {
			// back to Newick text and through the Newick reader once more
			back := mustParse(t.Newick())
			same("nexus_chain", fmt.Sprintf("%s, tree %d", what, i), models[i], modelOf(back), texts[i]+"\n"+nx)
			i++
		})
	}
	// ---- the same Nexus document in the layouts other programs write ---------------------------------
	// (the writer's own layout: one "key name" pair per line, no commas, ';' on a line of its own)
	if nx, err := nexus.WriteNexus(chanOf(mkTrees()...), true); err == nil {
		layout, nx2 := relayoutNexus(r, nx)
		if r.Intn(4) == 0 {
			// replicate files give every tree the same name: they are still so many trees
			nx2 = regexp.MustCompile(`(?m)^(\s*)(TREE|tree) tree[0-9]+ =`).ReplaceAllString(nx2, "${1}${2} rep =")
			layout += ", all trees under one name"
		}
		o.AddSet("nexus_layouts", layout)
		what := "Nexus with translate table, layout " + layout
		n, err := nexus.NewParser(strings.NewReader(nx2)).Parse()
		if o.Check(err == nil, "nexus_layout_read_error", what+": "+fmt.Sprint(err), nx2) &&
			o.Check(n.NTrees() == ntrees, "nexus_tree_count", fmt.Sprintf("%s: %d trees read, %d written", what, n.NTrees(), ntrees), nx2) {
			i := 0
			n.IterateTrees(func(name string, t *tree.Tree) {
				same("nexus_layout", fmt.Sprintf("%s, tree %d", what, i), models[i], modelOf(mustParse(t.Newick())), texts[i]+"\n"+nx2)
				i++
			})
		}
	}
	// ---- PhyloXML chain (library) ------------------------------------------------------------
	var xmlDoc string
	{
		px, err := phyloxml.WritePhyloXML(chanOf(mkTrees()...))
		o.Ev("WritePhyloXML", 1)
		what := "Newick->PhyloXML->Newick"
		if o.Check(err == nil, "phyloxml_write_error", fmt.Sprint(err), doc) {
			xmlDoc = px
			p, err := phyloxml.NewParser(strings.NewReader(px)).Parse()
			if o.Check(err == nil, "phyloxml_read_error", fmt.Sprint(err), px) {
				i := 0
				p.IterateTrees(func(t *tree.Tree, err error) {
					if i < ntrees && o.Check(err == nil, "phyloxml_tree_error", fmt.Sprint(err), px) {
						back := mustParse(t.Newick())
						same("phyloxml_chain", fmt.Sprintf("%s, tree %d", what, i), models[i], modelOf(back), texts[i]+"\n"+px)
					}
					i++
				})
				o.Check(i == ntrees, "phyloxml_tree_count", fmt.Sprintf("%d trees read, %d written", i, ntrees), px)
			}
		}
	}

	// ---- multi-tree documents: every tree, in order, consecutive ids ---------------------------
	// Newick stream with layout variations
	var nw strings.Builder
	for i, s := range texts {
		v := s
		switch r.Intn(5) {
		case 0: // tree spanning several lines (break after commas)
			parts := strings.SplitAfter(s, ",")
			v = ""
			for j, p := range parts {
				v += p
				if j < len(parts)-1 && r.Intn(3) == 0 {
					v += "\n"
				}
			}
		case 1:
			v = s + gen.Pick(r, " ", "  ", "\t", " \t ")
		}
		nw.WriteString(v)
		last := i == len(texts)-1
		if !last || r.Intn(3) > 0 {
			nw.WriteString("\n")
		}
		if !last {
			switch r.Intn(6) {
			case 0:
				nw.WriteString("\n")
			case 1:
				nw.WriteString(gen.Pick(r, " ", "\t", "   ") + "\n")
			}
		}
	}
	type docT struct {
		name   string
		format int
		text   string
		want   []*ref.Tree
	}
	nwText := nw.String()
	if r.Intn(5) == 0 {
		nwText = strings.ReplaceAll(nwText, "\n", "\r\n") // a file written on Windows
		o.Ev("newick_stream_crlf", 1)
	}
	docs := []docT{{"newick", utils.FORMAT_NEWICK, nwText, models}}
	if nexusDoc != "" {
		docs = append(docs, docT{"nexus", utils.FORMAT_NEXUS, nexusDoc, models})
	}
	if xmlDoc != "" {
		docs = append(docs, docT{"phyloxml", utils.FORMAT_PHYLOXML, xmlDoc, models})
	}
	// Nextstrain: lengths become differences of cumulative divergences, so use a tree with exactly representable lengths
	{
		m := gen.Tree(r, gen.Opts{N: ntax, Shape: "random", RootDeg: gen.Pick(r, 2, 3), MultiP: 0.2, Lens: "all", LenCls: "tie"})
		p := r.Perm(ntax)
		for j, tp := range modelTips(m) {
			tp.Name = names[p[j]]
		}
		docs = append(docs, docT{"nextstrain", utils.FORMAT_NEXTSTRAIN, nextstrainJSON(m), []*ref.Tree{m}})
	}
	for _, d := range docs {
		recs := readMulti(d.text, d.format)
		o.Ev("ReadMultiTrees:"+d.name, 1)
		hasErr := false
		for _, rc := range recs {
			hasErr = hasErr || rc.err != nil
		}
		witness := d.text
		if !hasErr {
			if o.Check(len(recs) == len(d.want), "multi_count", fmt.Sprintf("%s: %d records for %d trees and no error record (a tree was skipped or duplicated)", d.name, len(recs), len(d.want)), witness, "format", d.name) {
				for i, rc := range recs {
					o.Check(rc.id == i, "multi_ids", fmt.Sprintf("%s: record %d carries id %d", d.name, i, rc.id), witness)
					if rc.m != nil {
						same("multi_order", fmt.Sprintf("%s: record %d is not tree %d of the file", d.name, i, i), d.want[i], rc.m, witness)
					}
				}
			}
		} else {
			// well-formed documents: an error record is a refusal of a legal file
			o.Check(false, "multi_error", fmt.Sprintf("%s: reader reports an error on a well-formed document: %v", d.name, firstErr(recs)), witness, "format", d.name)
		}
		// single-tree reader = first record of the multi-tree reader
		t1, err1 := utils.ReadTreeReader(bufio.NewReader(strings.NewReader(d.text)), d.format)
		o.Ev("ReadTreeReader:"+d.name, 1)
		if len(recs) > 0 {
			f := recs[0]
			if !o.Check((err1 != nil) == (f.err != nil), "single_vs_multi_error", fmt.Sprintf("%s: ReadTreeReader err=%v, first record of ReadMultiTrees err=%v", d.name, err1, f.err), witness, "format", d.name) {
				continue
			}
			if err1 == nil && f.m != nil {
				d1 := ref.Diff(c13Strip(f.m, true).Root, c13Strip(modelOf(t1), true).Root, "root", true)
				o.Check(d1 == "", "single_vs_multi_tree", fmt.Sprintf("%s: ReadTreeReader and the first record of ReadMultiTrees differ: %s", d.name, d1), witness, "format", d.name)
			}
		}
	}

	// ---- a malformed tree at any position of a Newick stream: the trees before it are delivered, then an error is
	// reported; nothing is skipped in silence
	if ntrees >= 2 {
		k := r.Intn(ntrees)
		var parts []string
		for i, s := range texts {
			if i == k {
				parts = append(parts, "((unfinished,tree;")
			} else {
				parts = append(parts, s)
			}
		}
		bad := strings.Join(parts, "\n") + "\n"
		recs := readMulti(bad, utils.FORMAT_NEWICK)
		o.Ev("malformed_tree_in_stream", 1)
		nerr, good := 0, 0
		for _, rc := range recs {
			if rc.err != nil {
				nerr++
			} else {
				good++
			}
		}
		o.Check(nerr >= 1, "multi_error_not_reported", fmt.Sprintf("tree %d of %d is malformed: %d trees delivered and no error record (trees skipped in silence)", k, ntrees, good), bad, "format", "newick")
		o.Check(good <= k, "multi_error_position", fmt.Sprintf("tree %d of %d is malformed: %d trees delivered without error", k, ntrees, good), bad, "format", "newick")
	}

	// ---- the reformat commands ------------------------------------------------------------------
	if idx%6 == 0 {
		f := tmpFile(c, "in.nw", doc)
		// the input file as it is, gzipped, or gzipped in two members ("cat a.gz b.gz"): always the same trees
		if ia, _, im := presentTrees(c, r, "in-alt", texts, false); im == "gz" || im == "gz-two-members" || im == "file-crlf" || im == "file-no-final-newline" {
			f = ia[1]
			o.Ev("cli_input:"+im, 1)
		}
		for _, tr := range [][]string{{"reformat", "nexus", "-i", f}, {"reformat", "nexus", "-i", f, "--translate"}, {"reformat", "phyloxml", "-i", f}} {
			res := runCLI(c, "", tr...)
			o.Ev("cli", 1)
			what := "gotree " + strings.Join(tr[:2], " ") + map[bool]string{true: " --translate", false: ""}[len(tr) > 4]
			if !o.Check(res.Exit == 0 && !res.Panic, "cli_reformat_failed", what+": "+res.brief(), doc) {
				continue
			}
			mid := tmpFile(c, "mid.txt", res.Stdout)
			res2 := runCLI(c, "", "reformat", "newick", "-i", mid, "-f", tr[1])
			if !o.Check(res2.Exit == 0 && !res2.Panic, "cli_reformat_back_failed", what+" | gotree reformat newick -f "+tr[1]+": "+res2.brief(), res.Stdout) {
				continue
			}
			lines := strings.Split(strings.TrimSpace(res2.Stdout), "\n")
			if !o.Check(len(lines) == ntrees, "cli_reformat_count", fmt.Sprintf("%s and back: %d trees for %d", what, len(lines), ntrees), doc+"\n"+res.Stdout+"\n"+res2.Stdout) {
				continue
			}
			for i, ln := range lines {
				bt, err := parseNewick(ln)
				if o.Check(err == nil, "cli_reformat_unreadable", fmt.Sprint(err), ln) {
					same("cli_reformat_chain", fmt.Sprintf("%s and back, tree %d", what, i), models[i], modelOf(bt), texts[i]+"\n"+res.Stdout+"\n"+ln)
				}
			}
		}
	}
}

func firstErr(recs []rec13) error {
	for _, r := range recs {
		if r.err != nil {
			return r.err
		}
	}
	return nil
}

// relayoutNexus rewrites the TRANSLATE command of a document written by gotree in an equivalent layout.
func relayoutNexus(r *rand.Rand, nx string) (string, string) {
	a := strings.Index(nx, "  TRANSLATE\n")
	b := strings.Index(nx, "\n  ;\n")
	if a < 0 || b < a {
		return "as-written", nx
	}
	var pairs []string
	for _, l := range strings.Split(nx[a+len("  TRANSLATE\n"):b], "\n") {
		if l = strings.TrimSpace(l); l != "" {
			pairs = append(pairs, l)
		}
	}
	head, tail := nx[:a], nx[b+len("\n  ;\n"):]
	switch r.Intn(5) {
	case 0:
		return "commas, one pair per line, ';' after the last pair", head + "  TRANSLATE\n    " + strings.Join(pairs, ",\n    ") + ";\n" + tail
	case 1:
		return "commas, one line", head + "  TRANSLATE " + strings.Join(pairs, ", ") + ";\n" + tail
	case 2:
		return "no commas, ';' after the last pair", head + "  TRANSLATE\n   " + strings.Join(pairs, "\n   ") + ";\n" + tail
	case 3:
		return "commas, ';' on its own line, tabs", head + "\tTRANSLATE\n\t\t" + strings.Join(pairs, ",\n\t\t") + "\n\t;\n" + tail
	default:
		lower := strings.NewReplacer("BEGIN TAXA;", "begin taxa;", "DIMENSIONS NTAX", "dimensions ntax", "TAXLABELS", "taxlabels", "END;", "end;",
			"BEGIN TREES;", "begin trees;", "  TREE ", "  tree ")
		return "lower-case keywords, commas", lower.Replace(head) + "  translate\n    " + strings.Join(pairs, ",\n    ") + "\n  ;\n" + lower.Replace(tail)
	}
}
