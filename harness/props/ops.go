package props

import (
	"fmt"
	"math/rand"
	"sort"
	"strings"

	"github.com/evolbioinfo/gotree/tree"

	"verif/gen"
	"verif/mon"
)

// hist is a live editing history on one tree (used by C03, C04, C15).
type hist struct {
	r       *rand.Rand
	t       *tree.Tree
	singles bool // the tree may contain single-child inner nodes (re-rooting of a rooted tree)
	fresh   int  // counter for fresh names
	log     []string
	only    map[string]bool // when set, restrict to these ops
	// indexFresh: the tree was just handed over by Clone/SubTree of an indexed tree (or freshly indexed): its
	// name index must be usable as it is, without the caller refreshing it
	indexFresh bool
	cloneFresh bool // set by the Clone op for the step that follows
	// a rearrangement applied earlier and not yet undone, the tree object it belongs to, and whether every edit
	// since has kept the unrooted shape (re-rooting at a node, rotating, sorting, decorating only)
	pending   tree.Rearrangement
	pendingOn *tree.Tree
	pendingOK bool
	forceKeep bool // the next NNI is kept for a later Undo
	// onSmall sees the result of an edit that reported success and left fewer than three tips, before the history
	// goes back to the tree as it was (the history itself stays on trees with at least three tips)
	onSmall func(t *tree.Tree, desc string)
}

type opFn func(h *hist) (desc string, err error, applicable bool)

type opDef struct {
	name string
	w    int
	fn   opFn
}

func (h *hist) freshName() string {
	h.fresh++
	return fmt.Sprintf("zz%d", h.fresh)
}

func innerNodes(t *tree.Tree) []*tree.Node {
	var o []*tree.Node
	for _, n := range t.Nodes() {
		if n.Nneigh() >= 2 {
			o = append(o, n)
		}
	}
	return o
}

func tipNames(t *tree.Tree) []string {
	var o []string
	for _, n := range t.Tips() {
		o = append(o, n.Name())
	}
	return o
}

func namesBelow(n, prev *tree.Node, out *[]string) {
	if n.Tip() {
		*out = append(*out, n.Name())
	}
	for _, c := range n.Neigh() {
		if c != prev {
			namesBelow(c, n, out)
		}
	}
}

func hasSingles(t *tree.Tree) bool {
	for _, n := range t.Nodes() {
		if n.Nneigh() == 2 && n != t.Root() {
			return true
		}
	}
	return false
}

// randSubset returns k distinct elements.
func randSubset(r *rand.Rand, xs []string, k int) []string {
	p := r.Perm(len(xs))
	o := make([]string, 0, k)
	for i := 0; i < k && i < len(p); i++ {
		o = append(o, xs[p[i]])
	}
	return o
}

func short(xs []string) string {
	if len(xs) > 6 {
		return fmt.Sprintf("%s,…(%d)", strings.Join(xs[:6], ","), len(xs))
	}
	return strings.Join(xs, ",")
}

// a value taken from the tree itself (exact ties) or around it
func pickLen(r *rand.Rand, t *tree.Tree) float64 {
	es := t.Edges()
	if len(es) == 0 || r.Intn(5) == 0 {
		return gen.Float(r, "len")
	}
	v := es[r.Intn(len(es))].Length()
	if v == tree.NIL_LENGTH {
		return gen.Float(r, "len")
	}
	return v
}

func pickSup(r *rand.Rand, t *tree.Tree) float64 {
	es := t.Edges()
	if len(es) == 0 || r.Intn(4) == 0 {
		return gen.Float(r, "unit")
	}
	v := es[r.Intn(len(es))].Support()
	if v == tree.NIL_SUPPORT {
		return gen.Float(r, "unit")
	}
	return v
}

var opTable = []opDef{
	{"Reroot", 6, func(h *hist) (string, error, bool) {
		in := innerNodes(h.t)
		if len(in) == 0 {
			return "", nil, false
		}
		n := in[h.r.Intn(len(in))]
		wasRooted := h.t.Rooted()
		err := h.t.Reroot(n)
		if err == nil && wasRooted {
			h.singles = hasSingles(h.t)
		}
		return fmt.Sprintf("Reroot(node deg %d)", n.Nneigh()), err, true
	}},
	{"RerootFirst", 2, func(h *hist) (string, error, bool) {
		wasRooted := h.t.Rooted()
		err := h.t.RerootFirst()
		if err == nil && wasRooted {
			h.singles = hasSingles(h.t)
		}
		return "RerootFirst()", err, true
	}},
	{"RerootOutGroup", 6, func(h *hist) (string, error, bool) {
		tips := tipNames(h.t)
		remove, strict := h.r.Intn(3) == 0, h.r.Intn(2) == 0
		var og []string
		switch h.r.Intn(4) {
		case 0:
			og = randSubset(h.r, tips, 1+h.r.Intn(max(1, len(tips)/2)))
		case 1:
			og = randSubset(h.r, tips, 1)
		default:
			es := h.t.Edges()
			e := es[h.r.Intn(len(es))]
			namesBelow(e.Right(), e.Left(), &og)
			if h.r.Intn(2) == 0 && len(og) < len(tips) { // complement of the clade
				in := map[string]bool{}
				for _, x := range og {
					in[x] = true
				}
				og = og[:0]
				for _, x := range tips {
					if !in[x] {
						og = append(og, x)
					}
				}
			}
		}
		if h.r.Intn(6) == 0 {
			og = append(og, "absent_name")
		}
		if remove {
			if len(tips)-len(og) < 3 {
				return "", nil, false
			}
			if h.singles {
				h.t.RemoveSingleNodes()
				h.singles = false
			}
		}
		err := h.t.RerootOutGroup(remove, strict, og...)
		return fmt.Sprintf("RerootOutGroup(remove=%v,strict=%v,%s)", remove, strict, short(og)), err, true
	}},
	{"RerootMidPoint", 3, func(h *hist) (string, error, bool) {
		return "RerootMidPoint()", h.t.RerootMidPoint(), true
	}},
	{"UnRoot", 3, func(h *hist) (string, error, bool) {
		h.t.UnRoot()
		return "UnRoot()", nil, true
	}},
	{"RemoveTips", 8, func(h *hist) (string, error, bool) {
		tips := tipNames(h.t)
		if len(tips) < 4 {
			return "", nil, false
		}
		if h.singles {
			h.t.RemoveSingleNodes()
			h.singles = false
		}
		k := 1 + h.r.Intn(len(tips)-3)
		sub := randSubset(h.r, tips, k)
		revert := h.r.Intn(3) == 0
		if revert { // keep: need >= 3 kept
			sub = randSubset(h.r, tips, 3+h.r.Intn(len(tips)-2))
		}
		if h.r.Intn(5) == 0 {
			sub = append(sub, "absent_name")
		}
		err := h.t.RemoveTips(revert, sub...)
		return fmt.Sprintf("RemoveTips(revert=%v,%s)", revert, short(sub)), err, true
	}},
	{"RemoveTips.DownTo2", 1, func(h *hist) (string, error, bool) {
		// pruning down to two tips: an error (unrooted trees) or a two-tip tree; either way the history goes on
		// from the tree as it was before
		tips := tipNames(h.t)
		if len(tips) < 3 || h.onSmall == nil {
			return "", nil, false
		}
		if h.singles {
			h.t.RemoveSingleNodes()
			h.singles = false
		}
		keep := randSubset(h.r, tips, 2)
		if h.r.Intn(2) == 0 {
			err := h.t.RemoveTips(true, keep...)
			return fmt.Sprintf("RemoveTips(revert=true,%s)", short(keep)), err, true
		}
		var drop []string
		for _, n := range tips {
			if n != keep[0] && n != keep[1] {
				drop = append(drop, n)
			}
		}
		h.r.Shuffle(len(drop), func(i, j int) { drop[i], drop[j] = drop[j], drop[i] })
		err := h.t.RemoveTips(false, drop...)
		return fmt.Sprintf("RemoveTips(revert=false,%s)", short(drop)), err, true
	}},
	{"RefreshIndexesPiecewise", 2, func(h *hist) (string, error, bool) {
		// the public refresh steps one by one instead of ReinitIndexes: bitsets are refilled in place
		if err := h.t.UpdateTipIndex(); err != nil {
			return "UpdateTipIndex()", err, true
		}
		d := "UpdateTipIndex()"
		if h.r.Intn(2) == 0 || h.forceKeep {
			if err := h.t.UpdateBitSet(); err != nil {
				return d + "+UpdateBitSet()", err, true
			}
			d += "+UpdateBitSet()"
		}
		if h.r.Intn(2) == 0 {
			h.t.ComputeEdgeHashes(nil, nil, nil)
			d += "+ComputeEdgeHashes()"
		}
		if h.r.Intn(2) == 0 {
			h.t.ComputeDepths()
			d += "+ComputeDepths()"
		}
		return d, nil, true
	}},
	{"CollapseShortBranches", 4, func(h *hist) (string, error, bool) {
		l := pickLen(h.r, h.t)
		rr, rt := h.r.Intn(3) == 0, h.r.Intn(4) == 0
		h.t.CollapseShortBranches(l, rr, rt)
		return fmt.Sprintf("CollapseShortBranches(%v,%v,%v)", l, rr, rt), nil, true
	}},
	{"CollapseLowSupport", 4, func(h *hist) (string, error, bool) {
		s := pickSup(h.r, h.t)
		rr := h.r.Intn(3) == 0
		h.t.CollapseLowSupport(s, rr)
		return fmt.Sprintf("CollapseLowSupport(%v,%v)", s, rr), nil, true
	}},
	{"CollapseTopoDepth", 3, func(h *hist) (string, error, bool) {
		if err := h.t.ReinitIndexes(); err != nil {
			return "ReinitIndexes()", err, true
		}
		n := len(h.t.Tips())
		a := h.r.Intn(n/2 + 2)
		b := a + h.r.Intn(3)
		rr := h.r.Intn(3) == 0
		err := h.t.CollapseTopoDepth(a, b, rr, false)
		return fmt.Sprintf("CollapseTopoDepth(%d,%d,%v)", a, b, rr), err, true
	}},
	{"RemoveEdges", 3, func(h *hist) (string, error, bool) {
		es := h.t.Edges()
		var sel []*tree.Edge
		for _, e := range es {
			if h.r.Intn(4) == 0 {
				sel = append(sel, e)
			}
		}
		rr, rt := h.r.Intn(3) == 0, h.r.Intn(4) == 0
		h.t.RemoveEdges(rr, rt, sel...)
		return fmt.Sprintf("RemoveEdges(%v,%v,%d edges)", rr, rt, len(sel)), nil, true
	}},
	{"Resolve", 4, func(h *hist) (string, error, bool) {
		s := h.r.Int63()
		rand.Seed(s)
		h.t.Resolve()
		return fmt.Sprintf("Resolve(seed %d)", s), nil, true
	}},
	{"ResolveNamedInternalNodes", 2, func(h *hist) (string, error, bool) {
		// every named inner node (the root included) becomes a new zero-length tip of that name under the node
		named := 0
		for _, n := range h.t.Nodes() {
			if !n.Tip() && n.Name() != "" {
				named++
			}
		}
		if named == 0 {
			// give two inner nodes (the root first) a fresh name so that the operation has something to do
			in := innerNodes(h.t)
			h.t.Root().SetName(h.freshName())
			if len(in) > 1 {
				in[h.r.Intn(len(in))].SetName(h.freshName())
			}
		}
		h.t.ResolveNamedInternalNodes()
		return "ResolveNamedInternalNodes()", nil, true
	}},
	{"RotateInternalNodes", 2, func(h *hist) (string, error, bool) {
		rand.Seed(h.r.Int63())
		h.t.RotateInternalNodes()
		return "RotateInternalNodes()", nil, true
	}},
	{"RotateNeighbors", 2, func(h *hist) (string, error, bool) {
		in := innerNodes(h.t)
		if len(in) == 0 {
			return "", nil, false
		}
		rand.Seed(h.r.Int63())
		in[h.r.Intn(len(in))].RotateNeighbors()
		return "Node.RotateNeighbors()", nil, true
	}},
	{"SortNeighborsByTips", 2, func(h *hist) (string, error, bool) {
		h.t.SortNeighborsByTips()
		return "SortNeighborsByTips()", nil, true
	}},
	{"GraftTreeOnTip", 3, func(h *hist) (string, error, bool) {
		tips := tipNames(h.t)
		tip := tips[h.r.Intn(len(tips))]
		refreshed := ""
		if _, err := h.t.TipIndex(tip); !h.indexFresh || err != nil {
			// a program refreshes the name index after edits; a copy of an indexed tree is used as handed over
			if err := h.t.UpdateTipIndex(); err != nil {
				return "UpdateTipIndex()", err, true
			}
			refreshed = "UpdateTipIndex+"
		}
		g := gen.Tree(h.r, gen.Opts{N: 2 + h.r.Intn(5), Shape: "random", RootDeg: gen.Pick(h.r, 2, 3), Lens: gen.Pick(h.r, "all", "mixed"), LenCls: "len", SupP: 0.5, SupCls: "unit"})
		// fresh names
		for _, m := range modelTips(g) {
			m.Name = h.freshName()
		}
		err := h.t.GraftTreeOnTip(tip, mon.Build(g))
		return fmt.Sprintf("%sGraftTreeOnTip(%s,%s)", refreshed, tip, g.Newick()), err, true
	}},
	{"GraftTipOnEdge", 3, func(h *hist) (string, error, bool) {
		es := h.t.Edges()
		e := es[h.r.Intn(len(es))]
		n := h.t.NewNode()
		n.SetName(h.freshName())
		_, _, _, err := h.t.GraftTipOnEdge(n, e)
		return fmt.Sprintf("GraftTipOnEdge(%s, edge above %s)", n.Name(), e.Right().Name()), err, true
	}},
	{"Merge", 2, func(h *hist) (string, error, bool) {
		if !h.t.Rooted() {
			return "", nil, false
		}
		if err := h.t.UpdateTipIndex(); err != nil {
			return "UpdateTipIndex()", err, true
		}
		g := gen.Tree(h.r, gen.Opts{N: 2 + h.r.Intn(6), Shape: "random", RootDeg: 2, Lens: "all", LenCls: "len", SupP: 0.5, SupCls: "unit"})
		for _, m := range modelTips(g) {
			m.Name = h.freshName()
		}
		t2 := mon.Build(g)
		if err := t2.UpdateTipIndex(); err != nil {
			return "UpdateTipIndex()", err, true
		}
		err := h.t.Merge(t2)
		return fmt.Sprintf("Merge(%s)", g.Newick()), err, true
	}},
	{"InsertIdenticalTips", 3, func(h *hist) (string, error, bool) {
		if err := h.t.ReinitIndexes(); err != nil {
			return "ReinitIndexes()", err, true
		}
		tips := tipNames(h.t)
		var groups [][]string
		for _, tp := range randSubset(h.r, tips, 1+h.r.Intn(3)) {
			g := []string{tp}
			for k := 1 + h.r.Intn(3); k > 0; k-- {
				g = append(g, h.freshName())
			}
			h.r.Shuffle(len(g), func(i, j int) { g[i], g[j] = g[j], g[i] })
			groups = append(groups, g)
		}
		err := h.t.InsertIdenticalTips(groups)
		return fmt.Sprintf("InsertIdenticalTips(%v)", groups), err, true
	}},
	{"RemoveSingleNodes", 3, func(h *hist) (string, error, bool) {
		h.t.RemoveSingleNodes()
		h.singles = false
		return "RemoveSingleNodes()", nil, true
	}},
	{"NNI", 5, func(h *hist) (string, error, bool) {
		var rs []tree.Rearrangement
		(&tree.NNIRearranger{}).Rearrange(h.t, func(r tree.Rearrangement) bool {
			rs = append(rs, r)
			return true
		})
		if len(rs) == 0 {
			return "", nil, false
		}
		k := h.r.Intn(len(rs))
		err := rs[k].Apply()
		d := fmt.Sprintf("NNI#%d.Apply", k)
		if err == nil {
			choice := h.r.Intn(3)
			if h.forceKeep {
				choice = 1
			}
			switch choice {
			case 0:
				err = rs[k].Undo()
				d += "+Undo"
			case 1:
				// keep it: it is undone later, after other edits of the same tree object
				h.pending, h.pendingOn = rs[k], h.t
				d += " (kept for a later Undo)"
			default:
				// this rearrangement stays: one kept earlier can no longer be undone (its four subtrees may have changed)
				h.pending = nil
			}
		}
		return d, err, true
	}},
	{"NNI.UndoLater", 4, func(h *hist) (string, error, bool) {
		// undo a rearrangement applied some steps ago, if the history still works on the same tree object
		// and its shape has only been re-rooted / re-ordered since (h.pendingOK is cleared by every other edit)
		if h.pending == nil || h.pendingOn != h.t || !h.pendingOK {
			return "", nil, false
		}
		err := h.pending.Undo()
		h.pending = nil
		return "NNI.Undo (of the rearrangement kept earlier)", err, true
	}},
	{"Rename", 2, func(h *hist) (string, error, bool) {
		tips := tipNames(h.t)
		m := map[string]string{}
		for _, tp := range randSubset(h.r, tips, 1+h.r.Intn(3)) {
			m[tp] = h.freshName()
		}
		m["absent_name"] = "whatever"
		return fmt.Sprintf("Rename(%v)", m), h.t.Rename(m), true
	}},
	{"RenameAuto", 1, func(h *hist) (string, error, bool) {
		id := h.fresh * 1000
		h.fresh++
		in, tp := h.r.Intn(2) == 0, h.r.Intn(2) == 0
		err := h.t.RenameAuto(in, tp, 10, &id, map[string]string{})
		return fmt.Sprintf("RenameAuto(%v,%v)", in, tp), err, true
	}},
	{"RenameRegexp", 1, func(h *hist) (string, error, bool) {
		err := h.t.RenameRegexp(false, true, "^(.)", "r$1", map[string]string{})
		return "RenameRegexp(tips,^(.),r$1)", err, true
	}},
	{"ShuffleTips", 2, func(h *hist) (string, error, bool) {
		rand.Seed(h.r.Int63())
		h.t.ShuffleTips()
		return "ShuffleTips()", nil, true
	}},
	{"Clone", 3, func(h *hist) (string, error, bool) {
		indexed := false
		if tp := h.t.Tips(); len(tp) > 0 {
			_, err := h.t.TipIndex(tp[0].Name())
			indexed = err == nil
		}
		if !indexed && h.r.Intn(2) == 0 {
			indexed = h.t.ReinitIndexes() == nil
		}
		h.t = h.t.Clone()
		h.cloneFresh = indexed
		return fmt.Sprintf("Clone(indexed=%v)", indexed), nil, true
	}},
	{"SubTree", 2, func(h *hist) (string, error, bool) {
		var cand []*tree.Node
		for _, n := range h.t.Nodes() {
			if n == h.t.Root() {
				continue
			}
			var nb []string
			p, err := n.Parent()
			if err != nil {
				continue
			}
			namesBelow(n, p, &nb)
			if len(nb) >= 3 && n.Nneigh() >= 3 {
				cand = append(cand, n)
			}
		}
		if len(cand) == 0 {
			return "", nil, false
		}
		n := cand[h.r.Intn(len(cand))]
		h.t = h.t.SubTree(n)
		h.singles = hasSingles(h.t)
		return fmt.Sprintf("SubTree(node deg %d)", n.Nneigh()), nil, true
	}},
	{"Clear", 2, func(h *hist) (string, error, bool) {
		switch h.r.Intn(4) {
		case 0:
			h.t.ClearLengths(h.r.Intn(2) == 0, h.r.Intn(2) == 0)
			return "ClearLengths", nil, true
		case 1:
			h.t.ClearSupports()
			return "ClearSupports", nil, true
		case 2:
			h.t.ClearComments()
			return "ClearComments", nil, true
		}
		h.t.ClearPvalues()
		return "ClearPvalues", nil, true
	}},
	{"Decorate", 5, func(h *hist) (string, error, bool) {
		// direct mutations through the node / branch accessors (what an annotating program does)
		nodes := h.t.Nodes()
		edges := h.t.Edges()
		switch h.r.Intn(6) {
		case 0:
			n := nodes[h.r.Intn(len(nodes))]
			c := gen.Comment(h.r)
			n.AddComment(c)
			return fmt.Sprintf("Node.AddComment(%q)", c), nil, true
		case 1: // rewrite the comments of several nodes: clear, then add
			k := 0
			for _, n := range nodes {
				if len(n.Comments()) > 0 && h.r.Intn(2) == 0 {
					n.ClearComments()
					n.AddComment(fmt.Sprintf("rewritten%d", k))
					k++
				}
			}
			return fmt.Sprintf("Node.ClearComments+AddComment x%d", k), nil, k > 0
		case 2: // a branch keeps at most one comment and only with a length (C01 domain of the writer)
			for _, i := range h.r.Perm(len(edges)) {
				e := edges[i]
				if e.Length() != tree.NIL_LENGTH && len(e.Comments()) <= 1 {
					had := len(e.Comments())
					e.ClearComments()
					e.AddComment(fmt.Sprintf("edgenote%d", i))
					return fmt.Sprintf("Edge.ClearComments+AddComment (had %d)", had), nil, true
				}
			}
			return "", nil, false
		case 3:
			e := edges[h.r.Intn(len(edges))]
			l := gen.Float(h.r, "len")
			e.SetLength(l)
			return fmt.Sprintf("Edge.SetLength(%v)", l), nil, true
		case 4:
			for _, i := range h.r.Perm(len(edges)) {
				e := edges[i]
				if !e.Right().Tip() && e.Right().Name() == "" {
					v := gen.Float(h.r, "unit")
					e.SetSupport(v)
					return fmt.Sprintf("Edge.SetSupport(%v)", v), nil, true
				}
			}
			return "", nil, false
		default:
			tips := h.t.Tips()
			n := tips[h.r.Intn(len(tips))]
			nm := h.freshName()
			n.SetName(nm)
			_ = h.t.UpdateTipIndex() // a program that renames a tip refreshes the name index
			return fmt.Sprintf("Tip.SetName(%s)+UpdateTipIndex", nm), nil, true
		}
	}},
	{"Scale", 2, func(h *hist) (string, error, bool) {
		if h.r.Intn(2) == 0 {
			f := gen.Pick(h.r, 0.5, 2.0, 1.0, 10.0)
			h.t.ScaleLengths(f, true, true)
			return fmt.Sprintf("ScaleLengths(%v)", f), nil, true
		}
		p := 1 + h.r.Intn(6)
		h.t.RoundLengths(p, true, true)
		return fmt.Sprintf("RoundLengths(%d)", p), nil, true
	}},
}

var opWeights int

func init() {
	for _, o := range opTable {
		opWeights += o.w
	}
	sort.SliceStable(opTable, func(i, j int) bool { return false })
}

func (h *hist) pick() *opDef {
	for {
		k := h.r.Intn(opWeights)
		for i := range opTable {
			k -= opTable[i].w
			if k < 0 {
				if h.only != nil && !h.only[opTable[i].name] {
					break
				}
				return &opTable[i]
			}
		}
	}
}

// step applies one random op. On an error return the tree is restored from a clone taken before
// (only all-success histories are judged). Returns the op name, description and whether it succeeded.
func (h *hist) step() (name, desc string, ok bool) {
	for tries := 0; tries < 50; tries++ {
		op := h.pick()
		backup := h.t.Clone()
		bs := h.singles
		h.cloneFresh = false
		prevPending := h.pending
		d, err, applicable := op.fn(h)
		if !applicable {
			continue
		}
		h.indexFresh = h.cloneFresh // any other edit ends the "as handed over" state
		switch op.name {
		case "NNI":
			// a rearrangement kept by THIS step can be undone later; one kept earlier stays as it was (still good
			// after Apply+Undo of another one, still lost if an edit in between changed the shape)
			if h.pending != nil && h.pending != prevPending {
				h.pendingOK = true
			}
		case "Reroot", "RotateInternalNodes", "RotateNeighbors", "SortNeighborsByTips", "Decorate", "Scale", "NNI.UndoLater", "RefreshIndexesPiecewise":
			// the four subtrees around the rearranged branch are still there
		default:
			h.pendingOK = false
		}
		if err != nil {
			h.t, h.singles = backup, bs
			h.log = append(h.log, d+" -> error: "+Trunc(err.Error(), 80))
			return op.name, d, false
		}
		// histories stay inside the domain of the properties: at least 3 tips (a non-monophyletic
		// outgroup removed in non-strict mode takes its whole enclosing clade along)
		if len(h.t.Tips()) < 3 {
			if h.onSmall != nil {
				h.onSmall(h.t, d)
			}
			h.t, h.singles = backup, bs
			continue
		}
		h.log = append(h.log, d)
		return op.name, d, true
	}
	return "", "", false
}

func max(a, b int) int {
	if a > b {
		return a
	}
	return b
}
