package props

import (
	"fmt"
	"strings"

	"github.com/evolbioinfo/gotree/tree"

	"verif/gen"
	"verif/mon"
	"verif/ref"
)

func init() {
	Register(&Prop{
		ID:       "C17",
		Chunk:    30,
		NeedsCLI: true,
		Count: func(c *Ctx) int {
			if c.Thorough() {
				return 20000
			}
			return 900
		},
		Rule: "case = binary tree on 4..200 tips (random, caterpillar, balanced; lengths, supports, inner names, node/branch comments), unrooted with the " +
			"pseudo-root moved to every inner node in turn (sampled above 20 inner nodes) or rooted; the full NNI enumeration with Apply/Undo in enumeration " +
			"order (inside the callback, or collected first and then replayed in order); after every Apply: structure walker, tip set, split symmetric " +
			"difference = {1 removed, 1 added}; after every Undo: byte-identical text; at the end: 2 proposals per inner split, each inner split " +
			"removed exactly twice, neighbours pairwise distinct, text identical; every 6th case through gotree nni. non-trivial = >= 2 inner splits; distinct by text",
		Assumptions: []string{
			"inner branch = non-trivial split of the tree (the two root branches of a rooted tree are one split)",
			"only apply/undo in enumeration order is judged (quantifier)",
		},
		Run: runC17,
	})
}

type nniObs struct {
	removed, added ref.Key
	canon          string
}

// c17Enumerate runs the enumeration on t and checks every step. Returns the per-proposal observations.
// one generator object for the whole case: nothing it may remember about a tree can survive an edit of that tree
var c17Rearranger = &tree.NNIRearranger{}

func c17Enumerate(o *Obs, t *tree.Tree, tx *ref.Taxa, collectFirst bool, ctx string, tag []string) ([]nniObs, bool) {
	orig := t.Newick()
	origSplits := modelOf(t).Splits(tx)
	var out []nniObs
	okAll := true
	one := func(i int, re tree.Rearrangement) bool {
		what := fmt.Sprintf("%s, proposal %d", ctx, i)
		if err := re.Apply(); !o.Check(err == nil, "nni_apply_error", what+": "+fmt.Sprint(err), orig, tag...) {
			return false
		}
		w, ps := mon.Walk(t, true)
		o.Asserts += w.Asserts
		if len(ps) > 0 {
			o.Fail("nni_structure", what+" after Apply: "+ps[0].Kind+": "+ps[0].Detail, orig, tag...)
			return false
		}
		m := modelOf(t)
		if !o.Check(sameStrings(m.SortedTips(), tx.Names), "nni_tipset", what+": tip set changed", orig, tag...) {
			return false
		}
		sp := m.Splits(tx)
		var rem, add []ref.Key
		for k, s := range origSplits {
			if _, ok := sp[k]; !ok && !s.Trivial {
				rem = append(rem, k)
			}
		}
		for k, s := range sp {
			if _, ok := origSplits[k]; !ok && !s.Trivial {
				add = append(add, k)
			}
		}
		after := t.Newick()
		if !o.Check(len(rem) == 1 && len(add) == 1, "nni_not_one_split", fmt.Sprintf("%s: %d splits removed, %d added (neighbour %s)", what, len(rem), len(add), Trunc(after, 300)), orig, tag...) {
			okAll = false
		} else {
			out = append(out, nniObs{rem[0], add[0], m.CanonicalSplits(tx)})
		}
		if err := re.Undo(); !o.Check(err == nil, "nni_undo_error", what+": "+fmt.Sprint(err), orig, tag...) {
			return false
		}
		if !o.Check(t.Newick() == orig, "nni_undo_text", fmt.Sprintf("%s: after Undo the tree writes %s", what, Trunc(t.Newick(), 600)), orig, tag...) {
			return false
		}
		w, ps = mon.Walk(t, true)
		o.Asserts += w.Asserts
		if len(ps) > 0 {
			o.Fail("nni_structure", what+" after Undo: "+ps[0].Kind+": "+ps[0].Detail, orig, tag...)
			return false
		}
		if i%3 == 1 {
			// the same rearrangement object once more (evaluate all neighbours, then go to the one kept): it
			// gives the same neighbour and is undone the same way
			o.Ev("nni_second_apply", 1)
			if err := re.Apply(); !o.Check(err == nil, "nni_apply_error", what+", second Apply: "+fmt.Sprint(err), orig, tag...) {
				return false
			}
			if !o.Check(t.Newick() == after, "nni_second_apply_text", fmt.Sprintf("%s: the second Apply of the same rearrangement gives %s, the first gave %s", what, Trunc(t.Newick(), 400), Trunc(after, 400)), orig, tag...) {
				return false
			}
			if err := re.Undo(); !o.Check(err == nil, "nni_undo_error", what+", second Undo: "+fmt.Sprint(err), orig, tag...) {
				return false
			}
			if !o.Check(t.Newick() == orig, "nni_undo_text", fmt.Sprintf("%s: after the second Undo the tree writes %s", what, Trunc(t.Newick(), 600)), orig, tag...) {
				return false
			}
		}
		return true
	}
	n := 0
	completed := true
	if collectFirst {
		var rs []tree.Rearrangement
		c17Rearranger.Rearrange(t, func(re tree.Rearrangement) bool { rs = append(rs, re); return true })
		for i, re := range rs {
			n++
			if !one(i, re) {
				completed = false
				break
			}
		}
	} else {
		c17Rearranger.Rearrange(t, func(re tree.Rearrangement) bool {
			n++
			if !one(n-1, re) {
				completed = false
				return false
			}
			return true
		})
	}
	if !completed {
		return out, false
	}
	o.Check(t.Newick() == orig, "nni_final_text", ctx+": text after the full enumeration differs from the original", orig, tag...)
	o.Ev("proposals", n)
	// completeness / minimality from observation alone
	inner := 0
	removedCount := map[ref.Key]int{}
	for _, x := range out {
		removedCount[x.removed]++
	}
	m0 := modelOf(t)
	rootSplitMissing := false
	bothInner := len(m0.Root.Children) == 2 && !m0.Root.Children[0].IsTip() && !m0.Root.Children[1].IsTip()
	var rootKey ref.Key
	if bothInner {
		rootKey, _ = tx.KeyOf(nodeTipNames(m0.Root.Children[0]))
	}
	for k, s := range origSplits {
		if s.Trivial {
			continue
		}
		inner++
		if removedCount[k] != 2 {
			if bothInner && k == rootKey && removedCount[k] == 0 {
				rootSplitMissing = true
				continue
			}
			o.Fail("nni_proposals_per_branch", fmt.Sprintf("%s: inner split %s is rearranged %d times, expected 2", ctx, tx.Show(k), removedCount[k]), orig, tag...)
			okAll = false
		}
	}
	o.Asserts += inner
	want := 2 * inner
	if rootSplitMissing {
		o.Fail("nni_proposal_count", fmt.Sprintf("%s: %d proposals for %d inner splits: the split carried by the two root branches gets none", ctx, n, inner), orig,
			"rooted", "true", "both_root_children_inner", "true", "missing", fmt.Sprint(want-n))
	} else {
		o.Check(n == want, "nni_proposal_count", fmt.Sprintf("%s: %d proposals for %d inner splits", ctx, n, inner), orig, append([]string{"rooted", fmt.Sprint(len(m0.Root.Children) == 2), "missing", fmt.Sprint(want - n)}, tag...)...)
	}
	seen := map[string]int{}
	for i, x := range out {
		if j, dup := seen[x.canon]; dup {
			o.Fail("nni_duplicate_neighbour", fmt.Sprintf("%s: proposals %d and %d give the same tree", ctx, j, i), orig, tag...)
			okAll = false
			break
		}
		seen[x.canon] = i
	}
	o.Asserts += len(out)
	return out, okAll
}

func runC17(c *Ctx, idx int, o *Obs) {
	r := c.Rng("C17", idx)
	maxTips := 60
	if idx%30 == 0 {
		maxTips = 200
	}
	n := gen.Size(r, 4, maxTips)
	rooted := idx%3 == 0
	rd := 3
	if rooted {
		rd = 2
	}
	R := gen.Tree(r, gen.Opts{N: n, Shape: gen.Pick(r, "random", "random", "caterpillar", "balanced"), RootDeg: rd, MultiP: 0,
		Lens: gen.Pick(r, "all", "all", "mixed", "none"), LenCls: gen.Pick(r, "len", "dec", "tie"), SupP: gen.Pick(r, 0.0, 0.5, 1.0), SupCls: "unit",
		InnerNameP: gen.Pick(r, 0.0, 0.3), NodeComP: gen.Pick(r, 0.0, 0.3), EdgeComP: gen.Pick(r, 0.0, 0.3), Names: gen.Pick(r, "simple", "simple", "hostile")})
	text := R.Newick()
	o.Sample = Trunc(text, 400)
	o.SetFP(text)
	o.Class = fmt.Sprintf("rooted=%v", rooted)
	tx := ref.NewTaxa(R.Tips())
	innerSplits := 0
	for _, s := range R.Splits(tx) {
		if !s.Trivial {
			innerSplits++
		}
	}
	o.Nontrivial = innerSplits >= 2
	c.Announce(text)
	tag := []string{"rooted", fmt.Sprint(rooted)}

	t := mustParse(text)
	collect := idx%2 == 1
	if rooted {
		c17Enumerate(o, t, tx, collect, "rooted tree", tag)
		o.Ev("enumerations", 1)
	} else {
		// enumerate, edit the same tree object (a new tip grafted in the middle of a branch keeps it binary), enumerate again
		if _, ok := c17Enumerate(o, t, tx, collect, "unrooted tree, first enumeration", tag); ok {
			es := t.Edges()
			nt := t.NewNode()
			nt.SetName("grafted_tip")
			if _, _, _, err := t.GraftTipOnEdge(nt, es[r.Intn(len(es))]); err == nil {
				tx2 := ref.NewTaxa(modelOf(t).Tips())
				c17Enumerate(o, t, tx2, collect, "unrooted tree, second enumeration of the same object after GraftTipOnEdge", tag)
				o.Ev("enumerations_after_edit", 1)
			}
		}
		t = mustParse(text)
		// the pseudo-root at every inner node in turn
		inn := innerNodes(t)
		order := r.Perm(len(inn))
		if len(inn) > 60 {
			order = order[:2]
		} else if len(inn) > 20 {
			order = order[:6]
		}
		for _, i := range order {
			t2 := mustParse(text)
			if r.Intn(3) == 0 {
				t2 = usedObject(r, text)
			}
			nd := innerNodes(t2)[i]
			if nd.Nneigh() < 3 {
				continue
			}
			if nd != t2.Root() {
				if err := t2.Reroot(nd); err != nil {
					continue
				}
			}
			if _, ok := c17Enumerate(o, t2, tx, collect, fmt.Sprintf("unrooted tree, pseudo-root at inner node %d", i), tag); !ok {
				break
			}
			o.Ev("enumerations", 1)
		}
	}

	// the command reads a Newick stream: one tree per ';'-terminated line, so keep texts without ';' or line ends inside labels/comments
	if idx%6 == 5 && strings.Count(text, ";") == 1 && !strings.ContainsAny(text, "\n\r") {
		// a file of two or three trees (different sizes): the output must be, tree after tree, the neighbours of THAT tree
		type one struct {
			m     *ref.Tree
			tx    *ref.Taxa
			inner int
			both  bool
		}
		mkOne := func(m *ref.Tree) one {
			x := ref.NewTaxa(m.Tips())
			k := 0
			for _, sp := range m.Splits(x) {
				if !sp.Trivial {
					k++
				}
			}
			b := len(m.Root.Children) == 2 && !m.Root.Children[0].IsTip() && !m.Root.Children[1].IsTip()
			return one{m, x, k, b}
		}
		items := []one{mkOne(R)}
		lines := []string{text}
		for j := 0; j < 1+r.Intn(2); j++ {
			m := gen.Tree(r, gen.Opts{N: 4 + r.Intn(9), Shape: "random", RootDeg: 3, MultiP: 0, Lens: "all", LenCls: "dec", Names: "simple"})
			items = append(items, mkOne(m))
			lines = append(lines, m.Newick())
		}
		inArgs, inStdin, inMode := presentTrees(c, r, "nni", lines, false)
		o.Ev("cli_input:"+inMode, 1)
		res, outMode := runCLIOut(c, r, inStdin, append([]string{"nni"}, inArgs...)...)
		o.Ev("cli_output:"+outMode, 1)
		o.Ev("cli", 1)
		inp := strings.Join(lines, "\n")
		if !o.Check(res.Exit == 0 && !res.Panic, "cli_nni_failed", res.brief(), inp, tag...) {
			return
		}
		out := strings.Split(strings.TrimSpace(res.Stdout), "\n")
		pos := 0
		for ti, it := range items {
			want := 2 * it.inner
			if it.both {
				// listed known finding: the root split of such a rooted tree gets no proposal
				if pos+want-2 <= len(out) {
					ok := true
					if pos+want-1 < len(out) {
						// decide between want and want-2 by looking at the tip set of the line that would follow
						m, err := ref.ParseNewick(out[pos+want-2])
						ok = err != nil || !sameStrings(m.SortedTips(), it.tx.Names)
					}
					if ok {
						o.Fail("nni_proposal_count", fmt.Sprintf("gotree nni, tree %d: %d neighbours for %d inner splits: the split carried by the two root branches gets none", ti, want-2, it.inner), inp,
							"rooted", "true", "both_root_children_inner", "true", "missing", "2")
						want -= 2
					}
				}
			}
			if !o.Check(pos+want <= len(out), "nni_proposal_count", fmt.Sprintf("gotree nni, tree %d of %d: output ends after %d lines, %d neighbours expected for this tree", ti, len(items), len(out)-pos, want), inp, "via", "cli", "missing", "?") {
				return
			}
			orig := it.m.Splits(it.tx)
			seen := map[string]bool{}
			for i := 0; i < want; i++ {
				ln := out[pos+i]
				m, err := ref.ParseNewick(ln)
				if !o.Check(err == nil, "cli_nni_unreadable", fmt.Sprintf("line %d: %v", pos+i, err), inp) {
					return
				}
				if !o.Check(sameStrings(m.SortedTips(), it.tx.Names), "nni_tipset", fmt.Sprintf("gotree nni line %d: not a tree on the tips of input tree %d", pos+i, ti), inp, "via", "cli") {
					return
				}
				sp := m.Splits(it.tx)
				diff := 0
				for k := range orig {
					if _, ok := sp[k]; !ok {
						diff++
					}
				}
				for k := range sp {
					if _, ok := orig[k]; !ok {
						diff++
					}
				}
				o.Check(diff == 2, "nni_not_one_split", fmt.Sprintf("gotree nni line %d differs from input tree %d by %d splits", pos+i, ti, diff), inp, "via", "cli")
				cn := m.CanonicalSplits(it.tx)
				o.Check(!seen[cn], "nni_duplicate_neighbour", fmt.Sprintf("gotree nni line %d repeats an earlier neighbour of tree %d", pos+i, ti), inp, "via", "cli")
				seen[cn] = true
			}
			pos += want
		}
		o.Check(pos == len(out), "nni_proposal_count", fmt.Sprintf("gotree nni: %d lines written, %d neighbours expected over %d trees", len(out), pos, len(items)), inp, "via", "cli", "missing", fmt.Sprint(pos-len(out)))
	}
}
