package props

import (
	"fmt"
	"sort"
	"strconv"
	"strings"
	"sync"

	gcmd "github.com/evolbioinfo/gotree/cmd"
	"github.com/spf13/cobra"
	"github.com/spf13/pflag"
)

// ---- the command tree, as registered by every init() of package cmd and before any parsing ----------

type cmdNode struct {
	path string // "gotree compute consensus"
	c    *cobra.Command
}

var (
	cmdOnce  sync.Once
	cmdNodes []cmdNode
	c19Pairs []c19Pair
)

type c19Pair struct {
	tmpl  *cmdTmpl
	flag  string // long name
	def   string
	short string
	typ   string
}

// c19DocumentedPairs: pairs of options whose help text itself says that they only act when BOTH are given
// (gotree brlen setrand: "If --mean-min and --mean-max are given ... Otherwise, 'mean' is set to --mean value"):
// moving one of them while toggling the other switches the documented mode, which is not a default that is ignored.
var c19DocumentedPairs = map[string]bool{"min-mean+max-mean": true}

func walkCmds() {
	cmdOnce.Do(func() {
		var rec func(c *cobra.Command, path string)
		rec = func(c *cobra.Command, path string) {
			p := strings.TrimSpace(path + " " + c.Name())
			cmdNodes = append(cmdNodes, cmdNode{p, c})
			subs := append([]*cobra.Command(nil), c.Commands()...)
			sort.Slice(subs, func(i, j int) bool { return subs[i].Name() < subs[j].Name() })
			for _, s := range subs {
				rec(s, p)
			}
		}
		rec(gcmd.RootCmd, "")
		// (template, flag) pairs of the end-to-end differential
		for i := range cmdTable {
			t := &cmdTable[i]
			var words []string
			for _, a := range t.Args {
				if strings.HasPrefix(a, "-") || strings.HasPrefix(a, "{") {
					break
				}
				words = append(words, a)
			}
			c, _, err := gcmd.RootCmd.Find(words)
			if err != nil || c == nil {
				continue
			}
			for _, f := range flagsOf(c) {
				if f.Name == "help" {
					continue
				}
				present := false
				for _, a := range t.Args {
					if a == "--"+f.Name || strings.HasPrefix(a, "--"+f.Name+"=") || (f.Shorthand != "" && a == "-"+f.Shorthand) {
						present = true
					}
				}
				if f.Name == "seed" && t.Seeded {
					continue // --seed is always given by the harness to commands that draw random numbers (its documented default is the clock)
				}
				if t.Stdin != "" && f.DefValue == "stdin" {
					// this is exactly the option whose default the template relies on: toggled below like any other
				}
				if !present {
					c19Pairs = append(c19Pairs, c19Pair{t, f.Name, f.DefValue, f.Shorthand, f.Value.Type()})
				}
			}
		}
	})
}

func flagsOf(c *cobra.Command) []*pflag.Flag {
	seen := map[string]bool{}
	var out []*pflag.Flag
	add := func(f *pflag.Flag) {
		if !seen[f.Name] {
			seen[f.Name] = true
			out = append(out, f)
		}
	}
	c.LocalFlags().VisitAll(add)
	c.InheritedFlags().VisitAll(add)
	c.PersistentFlags().VisitAll(add)
	sort.Slice(out, func(i, j int) bool { return out[i].Name < out[j].Name })
	return out
}

func init() {
	Register(&Prop{
		ID:       "C19",
		Chunk:    60,
		NeedsCLI: true,
		Count: func(c *Ctx) int {
			walkCmds()
			fam := 2
			if c.Thorough() {
				fam = 6
			}
			return len(cmdNodes) + fam*len(c19Pairs)
		},
		Exhaustive: true,
		Rule: "cases 0..#commands-1 (exhaustive walk): for every (sub)command reachable from cmd.RootCmd, in a process that has run every init() of " +
			"package cmd and parsed nothing, every local, persistent and inherited flag: DefValue (what the help prints) == Value.String() (what the " +
			"command would use), and parsing the documented default in each spelling (--name value, --name=value, -n value) leaves the value unchanged and no word over. Remaining cases (end-to-end differential through the shipped binary): for every command template that runs offline and " +
			"every flag of its command that the template leaves out: run with the flag omitted and with the default given (as --flag=<DefValue>, --flag <DefValue> or -f <DefValue> by input family) in fresh processes; stdout, " +
			"exit status and every output file must be equal (an omitted run is repeated when they differ, so that a non-deterministic command is " +
			"reported as inconclusive here and left to C18). non-trivial = the command has at least one flag (walk) / the command exits with status 0 in the omitted run (differential); distinct by (command, flag)",
		Assumptions: []string{
			"the flag set is finite and walked completely (exhaustive for part a); the differential covers the commands that run offline (download/upload/interactive shell/png are covered by the walk only)",
			"--seed is always given (its documented default is the clock)",
			"odd input families move ANOTHER numeric option of the command away from its default in both runs; the pair --min-mean / --max-mean of brlen setrand is left out because the help text documents that the interval only applies when both are given",
		},
		MinNontrivialFrac: 0.25,
		Run:               runC19,
	})
}

func runC19(c *Ctx, idx int, o *Obs) {
	walkCmds()
	if idx < len(cmdNodes) {
		n := cmdNodes[idx]
		fl := flagsOf(n.c)
		o.Class = "walk"
		o.Sample = n.path
		o.SetFP("walk", n.path)
		o.Nontrivial = len(fl) > 0
		var names []string
		for _, f := range fl {
			names = append(names, f.Name)
			o.Check(f.DefValue == f.Value.String(), "default_differs",
				fmt.Sprintf("%s --%s: the help documents the default %q, the command uses %q when the option is omitted", n.path, f.Name, f.DefValue, f.Value.String()),
				n.path+" --"+f.Name, "cmd", n.path, "flag", f.Name)
		}
		// passing the documented default in any of the spellings the help describes (--name value, --name=value,
		// -n value) must leave the value where it is and consume exactly the words it was given. Only for options
		// that take a value and whose default can be written back; parsing the default changes nothing else.
		for _, f := range fl {
			switch f.Value.Type() {
			case "int", "int64", "float64", "string", "uint", "uint64":
			default:
				continue
			}
			if f.DefValue != f.Value.String() {
				continue // reported above
			}
			forms := [][]string{{"--" + f.Name, f.DefValue}, {"--" + f.Name + "=" + f.DefValue}}
			if f.Shorthand != "" {
				forms = append(forms, []string{"-" + f.Shorthand, f.DefValue})
			}
			for _, words := range forms {
				err := n.c.ParseFlags(words)
				left := n.c.Flags().Args()
				o.Ev("default_spellings_parsed", 1)
				ok := err == nil && len(left) == 0 && f.Value.String() == f.DefValue
				if !o.Check(ok, "default_spelling_differs",
					fmt.Sprintf("%s %s: after parsing the documented default the option holds %q (documented %q), words left over %q, error %v", n.path, strings.Join(words, " "), f.Value.String(), f.DefValue, left, err),
					n.path+" "+strings.Join(words, " "), "cmd", n.path, "flag", f.Name) {
					_ = f.Value.Set(f.DefValue)
					break
				}
			}
		}
		o.Ev("flags_walked", len(fl))
		o.Ev("commands_walked", 1)
		o.Sample = n.path + " [" + strings.Join(names, " ") + "]"
		return
	}
	k := idx - len(cmdNodes)
	fam := k / len(c19Pairs)
	p := c19Pairs[k%len(c19Pairs)]
	r := c.Rng("C19", 1000000+fam) // one input family per fam, shared by all pairs
	in := makeInputs(r, c.Tmp, 14+fam*3)
	in.write()
	o.Class = "differential/" + p.tmpl.Name
	what := fmt.Sprintf("gotree %s : --%s omitted vs --%s=%s (inputs family %d)", p.tmpl.Name, p.flag, p.flag, p.def, fam)
	o.Sample = what
	o.SetFP("diff", p.tmpl.Name, p.flag, fmt.Sprint(fam))
	c.Announce(what)
	seed := []string{"--seed", "12345"}
	var a runOut
	// the default is passed in one of the spellings the help describes
	given := []string{"--" + p.flag + "=" + p.def}
	form := "--name=value"
	if p.typ != "bool" && p.typ != "stringSlice" && p.typ != "intSlice" {
		switch {
		case fam%3 == 1:
			given, form = []string{"--" + p.flag, p.def}, "--name value"
		case fam%3 == 2 && p.short != "":
			given, form = []string{"-" + p.short, p.def}, "-n value"
		}
	}
	o.AddSet("default_spellings", form)
	// odd input families: ANOTHER numeric option of the command is moved away from its default in both runs (twice
	// the default, or 1), so that a default that silently follows another option shows
	var other []string
	if fam%2 == 1 && p.flag != "seed" { // with --seed under test no other option is moved (it could make the command draw random numbers)
		var words []string
		for _, a := range p.tmpl.Args {
			if strings.HasPrefix(a, "-") || strings.HasPrefix(a, "{") {
				break
			}
			words = append(words, a)
		}
		if cc, _, err := gcmd.RootCmd.Find(words); err == nil && cc != nil {
			var cands []*pflag.Flag
			for _, f := range flagsOf(cc) {
				if f.Name == p.flag || f.Name == "seed" || f.Name == "threads" || (f.Value.Type() != "int" && f.Value.Type() != "float64") {
					continue
				}
				if c19DocumentedPairs[p.flag+"+"+f.Name] || c19DocumentedPairs[f.Name+"+"+p.flag] {
					continue
				}
				present := false
				for _, a := range p.tmpl.Args {
					if a == "--"+f.Name || strings.HasPrefix(a, "--"+f.Name+"=") || (f.Shorthand != "" && a == "-"+f.Shorthand) {
						present = true
					}
				}
				if !present {
					cands = append(cands, f)
				}
			}
			if len(cands) > 0 {
				f := cands[(k/len(c19Pairs)+len(p.flag))%len(cands)]
				v := "1"
				if x, err := strconv.ParseFloat(f.DefValue, 64); err == nil && x > 0 {
					v = strconv.FormatFloat(2*x, 'g', -1, 64)
				}
				other = []string{"--" + f.Name + "=" + v}
				what += " with " + other[0]
				o.Ev("differential_with_another_option_moved", 1)
			}
		}
	}
	if !p.tmpl.Seeded && len(other) == 0 { // (an option moved above, such as prune --random, may make the command draw numbers)
		// a command that draws no random number is run without any option of the harness's own (so that "no option at
		// all" is among the invocations compared)
		seed = nil
	}
	if p.flag == "seed" {
		// a command that draws no random number: the documented default of --seed (-1, the clock) changes nothing,
		// and the harness does not add a seed of its own
		seed = nil
	}
	a = runTmpl(c, p.tmpl, in, append(append([]string{}, other...), seed...), "a")
	if gcmd.RootCmd.PersistentFlags().Lookup(p.flag) != nil && fam%2 == 1 {
		// a global option may be given before the sub-command
		tmplPrefix = given
		given = nil
		what += " (given before the sub-command)"
		o.Ev("global_option_before_subcommand", 1)
	}
	b := runTmpl(c, p.tmpl, in, append(append(append([]string{}, other...), given...), seed...), "a")
	tmplPrefix = nil
	o.Ev("differential_runs", 2)
	if a.res.TimedOut || b.res.TimedOut {
		o.Inconclusive = what + ": wall-clock watchdog"
		return
	}
	o.Nontrivial = a.res.Exit == 0
	if a.res.Exit != 0 {
		o.Ev("omitted_run_failed:"+p.tmpl.Name, 1)
	}
	d := diffRuns(a, b)
	o.Asserts++
	if d == "" {
		return
	}
	a2 := runTmpl(c, p.tmpl, in, append(append([]string{}, other...), seed...), "a")
	if d2 := diffRuns(a, a2); d2 != "" {
		o.Inconclusive = what + ": two identical runs differ (" + d2 + "): non-deterministic command, see C18"
		return
	}
	o.Fail("omitted_differs_from_default", what+": "+d, what, "cmd", p.tmpl.Name, "flag", p.flag)
}
