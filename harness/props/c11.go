package props

import (
	"bufio"
	"bytes"
	"fmt"
	"hash/fnv"
	"math"
	"math/rand"
	"os"
	"regexp"
	"runtime"
	"runtime/pprof"
	"sort"
	"strconv"
	"strings"
	"sync"
	"sync/atomic"
	"time"

	"github.com/evolbioinfo/gotree/io/phyloxml"
	"github.com/evolbioinfo/gotree/io/utils"
	"github.com/evolbioinfo/gotree/support"
	"github.com/evolbioinfo/gotree/tree"
	"github.com/evolbioinfo/gotree/verifhook"

	"verif/gen"
)

func init() {
	Register(&Prop{
		ID:       "C11",
		Chunk:    8,
		Race:     true,
		NeedsCLI: true,
		Count: func(c *Ctx) int {
			if c.Thorough() {
				return 4860
			}
			return 324
		},
		Rule: "case = one threaded entry point (Compare plain/tips/identical-only, CompareWeighted, FBP, TBE, TBE with moved-taxa statistics) x one workload (8 trees x 12 taxa, 100 x 30, 400 x 60; 150 x 40 instead in the quick tier) x one delay policy at the verifhook points (none, random yield/sleep, one slow worker, barrier after the first receive), run with 1 thread and then with 2,3,4,8,16, #trees+5 and #branches+6 threads under the race detector; error cases put an Err item, a duplicate-name tree or a taxon-mismatched tree first, in the middle or last, one of them or 3..6 of them, or put a malformed tree inside a Newick / Nexus / PhyloXML document read by the real multi-tree reader; the commands compare trees (plain, --weighted) and compute support fbp|tbe are run as child processes (-t 1, 4, 16) on a file with one unparsable / duplicate-name / taxon-mismatched tree: non-zero exit, no crash, no blocked process. Monitors: per-id equality with the 1-thread records, exactly-once multiset checker over results and hook events, goroutine-state deadlock detector, race-log parser. non-trivial = at least two workers held a tree at the same time in some run of the case (measured from the hook event log), or, for TBE, per-branch hook events were seen with > 1 thread; distinct by (entry point, workload text, policy)",
		Assumptions: []string{
			"schedules are sampled (OS scheduler x delay policies), not enumerated; the oracle is sound for every schedule",
			"TBE moved-taxa statistics are sums accumulated in worker order and printed with 6 decimals: compared to 2e-6; supports compared bitwise",
			"emission order of per-tree records is not compared; only race reports with a gotree frame count",
			"a hang is decided on goroutine states (input drained, call not returned, every goroutine with a gotree frame parked, unchanged in two dumps >= 100 ms apart); the wall-clock watchdog alone is inconclusive",
		},
		MinNontrivialFrac: 0.25,
		Run:               runC11,
	})
}

// ---- schedule recorder -------------------------------------------------------------------------

type hookEv struct {
	site       string
	worker, id int
}

type recorder struct {
	mu      sync.Mutex
	evs     []hookEv
	policy  string
	rng     *rand.Rand
	need    int
	arrived map[int]bool
	gate    chan struct{}
	gateOn  bool
}

func newRecorder(policy string, seed int64, need int) *recorder {
	return &recorder{policy: policy, rng: rand.New(rand.NewSource(seed)), need: need, arrived: map[int]bool{}, gate: make(chan struct{}), gateOn: true}
}

func (rc *recorder) handle(site string, worker, id int) {
	rc.mu.Lock()
	rc.evs = append(rc.evs, hookEv{site, worker, id})
	roll := rc.rng.Intn(100)
	isRecv := strings.HasSuffix(site, ".recv")
	wait := false
	if rc.policy == "barrier" && isRecv && rc.gateOn && !rc.arrived[worker] {
		rc.arrived[worker] = true
		if len(rc.arrived) >= rc.need {
			close(rc.gate)
			rc.gateOn = false
		} else {
			wait = true
		}
	}
	gate := rc.gate
	rc.mu.Unlock()
	switch rc.policy {
	case "random":
		switch {
		case roll < 40:
			runtime.Gosched()
		case roll < 70:
			time.Sleep(time.Duration(1+roll) * 2 * time.Microsecond)
		}
	case "slow":
		if worker == 0 && !strings.HasPrefix(site, "tbe.") {
			time.Sleep(300 * time.Microsecond)
		} else if strings.HasPrefix(site, "tbe.") && roll < 10 {
			time.Sleep(100 * time.Microsecond)
		}
	case "barrier":
		if wait {
			select {
			case <-gate:
			case <-time.After(20 * time.Millisecond):
			}
		} else if !isRecv {
			runtime.Gosched()
		}
	}
}

type schedStats struct {
	events      int
	assign      string // tree -> worker vector (hash)
	seqHash     string
	overlaps    int
	recvPerID   map[int]int
	workersUsed int
}

// analyse is the offline checker over the hook event log of one call.
func (rc *recorder) analyse() schedStats {
	rc.mu.Lock()
	evs := append([]hookEv(nil), rc.evs...)
	rc.mu.Unlock()
	st := schedStats{events: len(evs), recvPerID: map[int]int{}}
	h := fnv.New64a()
	type iv struct{ w, a, b int }
	open := map[[2]int]int{} // (worker,id) -> seq of recv
	var ivs []iv
	asg := map[int]int{}
	workers := map[int]bool{}
	for i, e := range evs {
		fmt.Fprintf(h, "%s/%d/%d;", e.site, e.worker, e.id)
		switch {
		case strings.HasSuffix(e.site, ".recv"):
			st.recvPerID[e.id]++
			asg[e.id] = e.worker
			workers[e.worker] = true
			open[[2]int{e.worker, e.id}] = i
		case strings.HasSuffix(e.site, ".send") || strings.HasSuffix(e.site, ".done"):
			if a, ok := open[[2]int{e.worker, e.id}]; ok {
				ivs = append(ivs, iv{e.worker, a, i})
				delete(open, [2]int{e.worker, e.id})
			}
		}
	}
	st.seqHash = fmt.Sprintf("%x", h.Sum64())
	st.workersUsed = len(workers)
	var ids []int
	for id := range asg {
		ids = append(ids, id)
	}
	sort.Ints(ids)
	ah := fnv.New64a()
	for _, id := range ids {
		fmt.Fprintf(ah, "%d>%d;", id, asg[id])
	}
	st.assign = fmt.Sprintf("%x", ah.Sum64())
	sort.Slice(ivs, func(i, j int) bool { return ivs[i].a < ivs[j].a })
	for i := range ivs {
		for j := i + 1; j < len(ivs) && ivs[j].a < ivs[i].b; j++ {
			if ivs[j].w != ivs[i].w {
				st.overlaps++
			}
		}
	}
	return st
}

// ---- goroutine-state deadlock detector -----------------------------------------------------------

var goHdr = regexp.MustCompile(`^goroutine (\d+) \[([^\],]+)`)

// gotreeGoroutines returns "gid state topGotreeFrame" for every goroutine that has a gotree frame
// (other than the harness' own frames), and whether all of them are parked.
func gotreeGoroutines() (sig string, allParked bool, n int) {
	var b bytes.Buffer
	_ = pprof.Lookup("goroutine").WriteTo(&b, 2)
	var rows []string
	allParked = true
	for _, blk := range strings.Split(b.String(), "\n\n") {
		lines := strings.Split(blk, "\n")
		m := goHdr.FindStringSubmatch(lines[0])
		if m == nil {
			continue
		}
		frame := ""
		for _, l := range lines[1:] {
			if strings.HasPrefix(l, "github.com/evolbioinfo/gotree/") && !strings.Contains(l, "verifhook") {
				frame = l
				if i := strings.LastIndex(frame, "("); i > 0 {
					frame = frame[:i]
				}
				break
			}
		}
		if frame == "" {
			continue
		}
		n++
		state := m[2]
		switch {
		case strings.HasPrefix(state, "chan receive"), strings.HasPrefix(state, "chan send"), strings.HasPrefix(state, "semacquire"),
			strings.HasPrefix(state, "select"), strings.HasPrefix(state, "sync."):
		default:
			allParked = false
		}
		rows = append(rows, m[1]+" "+state+" "+frame)
	}
	sort.Strings(rows)
	return strings.Join(rows, "\n"), allParked, n
}

// awaitCall waits for done. It returns "returned", "deadlock" (decided on goroutine states) or "watchdog".
func awaitCall(done <-chan struct{}, drained func() bool) (status, dump string) {
	start := time.Now()
	prev := ""
	var prevAt time.Time
	for {
		select {
		case <-done:
			return "returned", ""
		case <-time.After(60 * time.Millisecond):
		}
		if drained() {
			sig, parked, n := gotreeGoroutines()
			if parked && n > 0 {
				if sig == prev && time.Since(prevAt) >= 100*time.Millisecond {
					// make sure the call did not return in the meantime
					select {
					case <-done:
						return "returned", ""
					default:
					}
					return "deadlock", sig
				}
				if sig != prev {
					prev, prevAt = sig, time.Now()
				}
			} else {
				prev = ""
			}
		}
		if time.Since(start) > 90*time.Second {
			sig, _, _ := gotreeGoroutines()
			return "watchdog", sig
		}
	}
}

// ---- workloads ---------------------------------------------------------------------------------

type c11Item struct {
	text string // Newick, "" for an Err item
	err  error
}

// c11Doc, when set, replaces the items by a document read by the real multi-tree reader in the given format. The
// input counts as consumed once the reader has closed its channel or an error record has been handed over (after
// an error record nothing more is to come: the call has to return).
var c11Doc *struct {
	text   string
	format int
}

// feed returns the input channel and a function telling whether the input has been consumed.
func c11Feed(items []c11Item, prefilled bool) (<-chan tree.Trees, func() bool) {
	if c11Doc != nil {
		src := utils.ReadMultiTrees(bufio.NewReader(strings.NewReader(c11Doc.text)), c11Doc.format)
		out := make(chan tree.Trees)
		var fin int32
		go func() {
			for t := range src {
				out <- t
				if t.Err != nil {
					atomic.StoreInt32(&fin, 1)
				}
			}
			close(out)
			atomic.StoreInt32(&fin, 1)
		}()
		return out, func() bool { return atomic.LoadInt32(&fin) == 1 }
	}
	mk := func(i int, it c11Item) tree.Trees {
		if it.err != nil {
			return tree.Trees{Tree: nil, Id: i, Err: it.err}
		}
		if i%3 == 1 {
			// an object with a past (indexed under another tip name, then renamed): see usedObject
			return tree.Trees{Tree: usedObject(rand.New(rand.NewSource(int64(i)*7919+int64(len(it.text)))), it.text), Id: i}
		}
		return tree.Trees{Tree: mustParse(it.text), Id: i}
	}
	if prefilled {
		ch := make(chan tree.Trees, len(items))
		for i, it := range items {
			ch <- mk(i, it)
		}
		close(ch)
		return ch, func() bool { return len(ch) == 0 }
	}
	allText := true
	for _, it := range items {
		allText = allText && it.err == nil
	}
	if allText && len(items)%2 == 1 {
		// through the real multi-tree reader (its goroutine runs under the race detector too)
		var b strings.Builder
		for _, it := range items {
			b.WriteString(it.text + "\n")
		}
		src := utils.ReadMultiTrees(bufio.NewReader(strings.NewReader(b.String())), utils.FORMAT_NEWICK)
		out := make(chan tree.Trees)
		var fin int32
		go func() {
			for t := range src {
				out <- t
			}
			close(out)
			atomic.StoreInt32(&fin, 1)
		}()
		return out, func() bool { return atomic.LoadInt32(&fin) == 1 }
	}
	ch := make(chan tree.Trees)
	var fin int32
	go func() {
		for i, it := range items {
			ch <- mk(i, it)
		}
		close(ch)
		atomic.StoreInt32(&fin, 1)
	}()
	return ch, func() bool { return atomic.LoadInt32(&fin) == 1 }
}

// c11Result is what one call delivered, reduced to comparable strings keyed by tree id.
type c11Result struct {
	perID  map[int][]string // every record delivered for the id (exactly-once checker)
	errIDs map[int]bool
	global string // supports of the reference tree / returned error class
	err    error
	aux    []float64 // moved-taxa statistics
	status string
	dump   string
}

func bitsOf(xs []float64) string {
	var b strings.Builder
	for _, x := range xs {
		fmt.Fprintf(&b, "%x,", math.Float64bits(x))
	}
	return b.String()
}

var c11Fns = []string{"compare", "compare_tips", "compare_identical", "weighted", "fbp", "tbe", "tbe_moved"}

func c11Call(c *Ctx, fn, refText string, items []c11Item, threads int, prefilled bool) *c11Result {
	res := &c11Result{perID: map[int][]string{}, errIDs: map[int]bool{}}
	rt := mustParse(refText)
	in, drained := c11Feed(items, prefilled)
	done := make(chan struct{})
	go func() {
		defer close(done)
		switch fn {
		case "compare", "compare_tips", "compare_identical":
			st, err := tree.Compare(rt, in, fn == "compare_tips", fn == "compare_identical", threads)
			if err != nil {
				res.err = err
				return
			}
			for s := range st {
				rec := fmt.Sprintf("same=%v err=%v", s.Sametree, s.Err != nil)
				if fn != "compare_identical" {
					rec += fmt.Sprintf(" t1=%d t2=%d c=%d", s.Tree1, s.Tree2, s.Common)
				}
				if s.Err != nil {
					res.errIDs[s.Id] = true
					rec = "err"
				}
				res.perID[s.Id] = append(res.perID[s.Id], rec)
			}
		case "weighted":
			st, err := tree.CompareWeighted(rt, in, true, false, threads)
			if err != nil {
				res.err = err
				return
			}
			for s := range st {
				rec := fmt.Sprintf("same=%v t1=%s t2=%s c=%s", s.Sametree, bitsOf(s.Tree1), bitsOf(s.Tree2), bitsOf(s.Common))
				if s.Err != nil {
					res.errIDs[s.Id] = true
					rec = "err"
				}
				res.perID[s.Id] = append(res.perID[s.Id], rec)
			}
		case "fbp":
			res.err = support.FBP(rt, in, threads, nil)
			res.global = edgeSupports(rt)
		case "tbe", "tbe_moved":
			if err := rt.ReinitIndexes(); err != nil {
				res.err = err
				return
			}
			moved := fn == "tbe_moved"
			var lf *os.File
			if moved {
				lf, _ = os.CreateTemp(c.Tmp, "tbe*.log")
			}
			_, res.err = support.TBE(rt, in, threads, false, moved, moved, 0.3, lf, nil)
			res.global = edgeSupports(rt)
			if lf != nil {
				name := lf.Name()
				lf.Close()
				b, _ := os.ReadFile(name)
				os.Remove(name)
				for _, f := range strings.Fields(string(b)) {
					if v, e := strconv.ParseFloat(f, 64); e == nil {
						res.aux = append(res.aux, v)
					}
				}
			}
		}
	}()
	res.status, res.dump = awaitCall(done, drained)
	return res
}

func edgeSupports(t *tree.Tree) string {
	var b strings.Builder
	for _, e := range t.Edges() {
		fmt.Fprintf(&b, "%x,", math.Float64bits(e.Support()))
	}
	return b.String()
}

var c11Workloads = []struct{ trees, taxa int }{{8, 12}, {100, 30}, {400, 60}}
var c11Policies = []string{"none", "random", "slow", "barrier"}

func runC11(c *Ctx, idx int, o *Obs) {
	r := c.Rng("C11", idx)
	nNormal := len(c11Fns) * len(c11Workloads) * len(c11Policies) // 84
	nErr := 4 * 3 * 3                                             // 36
	nCLI := 4 * 3 * 3                                             // 36: the commands, fed an erroneous stream
	nRace := len(c11RaceCmds)                                     // the commands themselves under the race detector
	k := idx % (nNormal + nErr + nCLI + nRace)
	rep := idx / (nNormal + nErr + nCLI + nRace)
	if k >= nNormal+nErr+nCLI {
		c11CLIRace(c, o, r, c11RaceCmds[k-nNormal-nErr-nCLI], rep)
		return
	}
	if k >= nNormal+nErr {
		k -= nNormal + nErr
		c11CLIError(c, o, r, []string{"compare trees", "compare trees --weighted", "compute support fbp", "compute support tbe"}[k%4],
			[]string{"garbage", "dupname", "mismatch"}[(k/4)%3], []string{"first", "middle", "last"}[(k/12)%3], rep)
		return
	}
	if k < nNormal {
		fn := c11Fns[k%len(c11Fns)]
		wl := c11Workloads[(k/len(c11Fns))%len(c11Workloads)]
		if !c.Thorough() && wl.trees == 400 {
			wl.trees, wl.taxa = 150, 40 // the quick tier keeps the largest workload short
		}
		pol := c11Policies[(k/(len(c11Fns)*len(c11Workloads)))%len(c11Policies)]
		c11Normal(c, o, r, fn, wl.trees, wl.taxa, pol, rep)
		return
	}
	k -= nNormal
	fn := []string{"compare", "weighted", "fbp", "tbe"}[k%4]
	et := []string{"erritem", "dupname", "mismatch"}[(k/4)%3]
	pos := []string{"first", "middle", "last"}[(k/12)%3]
	c11Error(c, o, r, fn, et, pos, rep)
}

func c11Trees(r *rand.Rand, ntrees, ntax int) (refText string, boots []string) {
	base := gen.Tree(r, gen.Opts{N: ntax, Shape: gen.Pick(r, "random", "random", "caterpillar", "balanced"), RootDeg: 3,
		MultiP: gen.Pick(r, 0.0, 0.0, 0.2), Lens: "all", LenCls: "len", Names: "simple"})
	baseText := base.Newick()
	refText = perturbedTree(r, baseText, 0, r.Intn(4) == 0, "len")
	strength := gen.Pick(r, 1, 2, 4, 8, 30)
	for i := 0; i < ntrees; i++ {
		boots = append(boots, perturbedTree(r, baseText, r.Intn(strength+1), r.Intn(8) == 0, gen.Pick(r, "len", "tie")))
	}
	return
}

// compareRuns checks a multi-threaded run against the single-threaded one.
func c11Compare(o *Obs, fn string, threads int, pol string, base, got *c11Result, n int, inp string) {
	what := fmt.Sprintf("%s, %d threads, policy %s", fn, threads, pol)
	tag := []string{"fn", fn}
	if got.status == "deadlock" {
		o.Fail("hang", what+": input consumed, call not returned, every goroutine with a gotree frame is parked:\n"+got.dump, inp, tag...)
		return
	}
	if got.status == "watchdog" {
		o.Inconclusive = what + ": wall-clock watchdog with goroutines still running:\n" + Trunc(got.dump, 600)
		return
	}
	o.Asserts++
	if (base.err != nil) != (got.err != nil) {
		o.Fail("error_differs", fmt.Sprintf("%s: returned error %v, 1 thread returned %v", what, got.err, base.err), inp, tag...)
		return
	}
	if strings.HasPrefix(fn, "compare") || fn == "weighted" {
		for id := 0; id < n; id++ {
			recs := got.perID[id]
			if !o.Check(len(recs) == 1, "not_exactly_once", fmt.Sprintf("%s: tree id %d delivered %d times", what, id, len(recs)), inp, tag...) {
				continue
			}
			want := base.perID[id]
			if len(want) == 1 {
				o.Check(recs[0] == want[0], "result_differs", fmt.Sprintf("%s: tree id %d: %s, 1 thread: %s", what, id, Trunc(recs[0], 300), Trunc(want[0], 300)), inp, tag...)
			}
		}
		o.Check(len(got.perID) == n, "extra_ids", fmt.Sprintf("%s: %d distinct ids delivered for %d trees", what, len(got.perID), n), inp, tag...)
		return
	}
	if base.err == nil {
		o.Check(got.global == base.global, "supports_differ", fmt.Sprintf("%s: supports of the reference tree differ from the 1-thread run", what), inp, tag...)
		if len(base.aux) > 0 || len(got.aux) > 0 {
			ok := len(base.aux) == len(got.aux)
			for i := 0; ok && i < len(base.aux); i++ {
				ok = math.Abs(base.aux[i]-got.aux[i]) <= 2e-6
			}
			o.Check(ok, "moved_taxa_differ", what+": moved-taxa statistics differ from the 1-thread run by more than 2e-6", inp, tag...)
		}
	}
}

// thread counts: small, the number of cores, more threads than trees, and more threads than reference branches
func c11Threads(n, ntax int) []int { return []int{2, 3, 4, 8, 16, n + 5, 2*ntax + 3} }

func c11Normal(c *Ctx, o *Obs, r *rand.Rand, fn string, ntrees, ntax int, pol string, rep int) {
	if strings.HasPrefix(fn, "tbe") && ntrees > 100 {
		ntrees = 100 // TBE is quadratic per tree; under the race detector 400 x 60 x 7 runs is too slow for no extra reach
	}
	refText, boots := c11Trees(r, ntrees, ntax)
	var items []c11Item
	for _, b := range boots {
		items = append(items, c11Item{text: b})
	}
	inp := fmt.Sprintf("fn=%s policy=%s\nref: %s\ntrees (%d):\n%s", fn, pol, refText, len(boots), strings.Join(boots, "\n"))
	o.Sample = Trunc(inp, 400)
	o.Class = fmt.Sprintf("%s/%dx%d/%s", fn, ntrees, ntax, pol)
	o.SetFP(fn, pol, refText, strings.Join(boots, "\n"))
	c.Announce(inp)
	verifhook.Set(nil)
	base := c11Call(c, fn, refText, items, 1, true)
	if base.status != "returned" {
		c11Compare(o, fn, 1, "none", base, base, len(items), inp)
		return
	}
	o.Ev("calls", 1)
	for ti, th := range c11Threads(ntrees, ntax) {
		rc := newRecorder(pol, r.Int63(), minInt(th, ntrees))
		h := verifhook.Handler(rc.handle)
		verifhook.Set(h)
		got := c11Call(c, fn, refText, items, th, (ti+rep)%2 == 0)
		verifhook.Set(nil)
		o.Ev("calls", 1)
		st := rc.analyse()
		o.Ev("hook_events", st.events)
		o.Ev("overlapping_intervals", st.overlaps)
		o.AddSet("interleavings", st.seqHash)
		o.AddSet("assignment_vectors", st.assign)
		o.AddSet("thread_counts", strconv.Itoa(th))
		if st.overlaps > 0 || (strings.HasPrefix(fn, "tbe") && st.events > 0) {
			o.Nontrivial = true
		}
		if got.status == "returned" && !strings.HasPrefix(fn, "tbe") && st.events > 0 {
			// exactly-once on the event log: every tree id was received by exactly one worker
			for id := 0; id < len(items); id++ {
				o.Check(st.recvPerID[id] == 1, "recv_not_exactly_once", fmt.Sprintf("%s, %d threads: tree id %d received %d times by the workers", fn, th, id, st.recvPerID[id]), inp, "fn", fn)
			}
		}
		c11Compare(o, fn, th, pol, base, got, len(items), inp)
		if got.status != "returned" {
			return
		}
	}
}

func c11Error(c *Ctx, o *Obs, r *rand.Rand, fn, et, pos string, rep int) {
	ntrees, ntax := gen.Pick(r, 6, 9, 20), gen.Pick(r, 8, 12, 20)
	refText, boots := c11Trees(r, ntrees, ntax)
	var items []c11Item
	for _, b := range boots {
		items = append(items, c11Item{text: b})
	}
	var bad c11Item
	switch et {
	case "erritem":
		bad = c11Item{err: fmt.Errorf("verif: injected reader error")}
	case "dupname":
		t := mustParse(boots[0])
		tips := t.Tips()
		tips[1].SetName(tips[0].Name())
		bad = c11Item{text: t.Newick()}
	default:
		t := mustParse(boots[0])
		t.Tips()[r.Intn(len(t.Tips()))].SetName("other_taxon")
		bad = c11Item{text: t.Newick()}
	}
	at := map[string]int{"first": 0, "middle": ntrees / 2, "last": ntrees}[pos]
	items = append(items[:at:at], append([]c11Item{bad}, items[at:]...)...)
	ats := map[int]bool{at: true}
	// variants: one erroneous tree; several of them (more than two, so that more than two workers meet one); the
	// erroneous tree inside a document that goes through the real reader (Newick, Nexus, PhyloXML)
	variant := (rep + len(et) + len(pos) + len(fn)) % 3
	docFormat := ""
	switch {
	case variant == 1:
		extra := 2 + r.Intn(4)
		for j := 0; j < extra; j++ {
			p := r.Intn(len(items) + 1)
			items = append(items[:p:p], append([]c11Item{bad}, items[p:]...)...)
			shifted := map[int]bool{p: true}
			for a := range ats {
				if a >= p {
					shifted[a+1] = true
				} else {
					shifted[a] = true
				}
			}
			ats = shifted
		}
		et += fmt.Sprintf("(x%d)", len(ats))
	case variant == 2 && et == "erritem":
		docFormat = gen.Pick(r, "newick", "nexus", "phyloxml")
		var b strings.Builder
		switch docFormat {
		case "newick":
			for _, it := range items {
				if it.err != nil {
					b.WriteString("((a,b;\n")
				} else {
					b.WriteString(it.text + "\n")
				}
			}
		case "nexus":
			b.WriteString("#NEXUS\nBEGIN TREES;\n")
			for i, it := range items {
				if it.err != nil {
					fmt.Fprintf(&b, "  TREE t%d = ((a,b;\n", i)
				} else {
					fmt.Fprintf(&b, "  TREE t%d = %s\n", i, it.text)
				}
			}
			b.WriteString("END;\n")
		default:
			var ts []*tree.Tree
			for _, it := range items {
				if it.err == nil {
					ts = append(ts, mustParse(it.text))
				}
			}
			x, err := phyloxml.WritePhyloXML(chanOf(ts...))
			if err != nil {
				o.Inconclusive = "own PhyloXML document: " + err.Error()
				return
			}
			// the document is cut inside the tree at the chosen position
			cut := strings.Index(x, "<phylogeny")
			for j := 0; j < at && cut >= 0; j++ {
				nx := strings.Index(x[cut+1:], "<phylogeny")
				if nx < 0 {
					break
				}
				cut += 1 + nx
			}
			if cut < 0 {
				cut = len(x) / 2
			}
			b.WriteString(x[:cut] + "<phylogeny rooted=\"false\"><clade><clade><name>a</name>")
		}
		c11Doc = &struct {
			text   string
			format int
		}{b.String(), map[string]int{"newick": utils.FORMAT_NEWICK, "nexus": utils.FORMAT_NEXUS, "phyloxml": utils.FORMAT_PHYLOXML}[docFormat]}
		defer func() { c11Doc = nil }()
		et += "(in a " + docFormat + " document)"
		o.AddSet("error_documents", docFormat)
	}
	inp := fmt.Sprintf("fn=%s error=%s at %s (item %d of %d)\nref: %s\nbad: %s\ntrees:\n%s", fn, et, pos, at, len(items), refText, bad.text, strings.Join(boots, "\n"))
	o.Sample = Trunc(inp, 400)
	o.Class = fmt.Sprintf("%s/error-%s-%s", fn, et, pos)
	o.SetFP(fn, et, pos, refText, strings.Join(boots, "\n"))
	c.Announce(inp)
	tag := []string{"fn", fn, "error", et}
	var base *c11Result
	for ti, th := range []int{1, 2, 3, 16, len(items) + 5} {
		pol := c11Policies[(ti+rep)%len(c11Policies)]
		rc := newRecorder(pol, r.Int63(), minInt(th, len(items)))
		verifhook.Set(verifhook.Handler(rc.handle))
		got := c11Call(c, fn, refText, items, th, (ti+rep)%2 == 0)
		verifhook.Set(nil)
		o.Ev("calls", 1)
		st := rc.analyse()
		o.Ev("hook_events", st.events)
		o.Ev("overlapping_intervals", st.overlaps)
		o.AddSet("interleavings", st.seqHash)
		if st.overlaps > 0 || strings.HasPrefix(fn, "tbe") || th == 1 {
			o.Nontrivial = true
		}
		what := fmt.Sprintf("%s, %d threads, %s at %s", fn, th, et, pos)
		if got.status == "deadlock" {
			o.Fail("hang", what+": input consumed, call not returned, every goroutine with a gotree frame is parked:\n"+got.dump, inp, tag...)
			return
		}
		if got.status == "watchdog" {
			o.Inconclusive = what + ": wall-clock watchdog:\n" + Trunc(got.dump, 600)
			return
		}
		if docFormat != "" {
			// the reader stops at the malformed tree: what is asked is that the error reaches the caller and the call returns
			o.Check(got.err != nil || len(got.errIDs) > 0, "error_not_reported", what+": neither the call nor any record carries the reader's error", inp, tag...)
			continue
		}
		switch fn {
		case "compare", "weighted":
			if !o.Check(got.err == nil, "error_workload_call_failed", what+": "+fmt.Sprint(got.err), inp, tag...) {
				continue
			}
			for a := range ats {
				o.Check(got.errIDs[a], "error_not_reported", fmt.Sprintf("%s: the record of the erroneous tree %d carries no error", what, a), inp, tag...)
			}
			for id := 0; id < len(items); id++ {
				recs := got.perID[id]
				if !o.Check(len(recs) == 1, "not_exactly_once", fmt.Sprintf("%s: tree id %d delivered %d times", what, id, len(recs)), inp, tag...) {
					continue
				}
				if !ats[id] {
					o.Check(!got.errIDs[id], "error_on_good_tree", fmt.Sprintf("%s: tree id %d carries an error", what, id), inp, tag...)
					if base != nil && len(base.perID[id]) == 1 {
						o.Check(recs[0] == base.perID[id][0], "result_differs", fmt.Sprintf("%s: tree id %d: %s, 1 thread: %s", what, id, Trunc(recs[0], 300), Trunc(base.perID[id][0], 300)), inp, tag...)
					}
				}
			}
		default:
			o.Check(got.err != nil, "error_not_reported", what+": the call returned no error", inp, tag...)
		}
		if th == 1 {
			base = got
		}
	}
}

func minInt(a, b int) int {
	if a < b {
		return a
	}
	return b
}

// c11CLIError: the shipped commands on a stream that contains one erroneous tree: the error must reach the
// caller (non-zero exit), without a crash and without a hang.
func c11CLIError(c *Ctx, o *Obs, r *rand.Rand, cmdline, et, pos string, rep int) {
	ntrees, ntax := gen.Pick(r, 6, 9, 20), gen.Pick(r, 8, 12, 20)
	refText, boots := c11Trees(r, ntrees, ntax)
	var bad string
	switch et {
	case "garbage":
		bad = "((a,b),(c,d)));"
	case "dupname":
		t := mustParse(boots[0])
		tips := t.Tips()
		tips[1].SetName(tips[0].Name())
		bad = t.Newick()
	default:
		t := mustParse(boots[0])
		t.Tips()[r.Intn(len(t.Tips()))].SetName("other_taxon")
		bad = t.Newick()
	}
	at := map[string]int{"first": 0, "middle": ntrees / 2, "last": ntrees}[pos]
	lines := append(append(append([]string{}, boots[:at]...), bad), boots[at:]...)
	inp := fmt.Sprintf("gotree %s, %s tree at %s (line %d of %d)\nref: %s\ntrees:\n%s", cmdline, et, pos, at, len(lines), refText, strings.Join(lines, "\n"))
	o.Sample = Trunc(inp, 400)
	o.Class = "cli/" + cmdline + "/error-" + et + "-" + pos
	o.SetFP("cli", cmdline, et, pos, refText, strings.Join(lines, "\n"))
	o.Nontrivial = true
	c.Announce(inp)
	fr := tmpFile(c, "c11ref.nw", refText+"\n")
	fb := tmpFile(c, "c11trees.nw", strings.Join(lines, "\n")+"\n")
	tag := []string{"fn", "cli " + cmdline, "error", et}
	for _, th := range []int{1, 4, 16} {
		args := strings.Fields(cmdline)
		if args[0] == "compare" {
			args = append(args, "-i", fr, "-c", fb)
		} else {
			args = append(args, "-i", fr, "-b", fb, "--silent")
		}
		args = append(args, "-t", fmt.Sprint(th), "--seed", "1")
		res := runCLIT(c, 60*time.Second, "", args...)
		o.Ev("cli_runs", 1)
		what := fmt.Sprintf("gotree %s -t %d, %s tree at %s", cmdline, th, et, pos)
		if res.TimedOut {
			// decided on the child's CPU seconds: a blocked process burns none
			if res.CPU < 5 {
				o.Fail("hang", fmt.Sprintf("%s: the command was still there after 60 s having used %.2f CPU seconds (blocked)", what, res.CPU), inp, tag...)
			} else {
				o.Inconclusive = what + ": wall-clock watchdog with the child still computing"
			}
			return
		}
		if !o.Check(!res.Panic && !res.Signal, "cli_crash", what+": "+res.brief(), inp, tag...) {
			return
		}
		o.Check(res.Exit != 0, "error_not_reported", what+": exit status 0: the error did not reach the caller; stderr "+Trunc(res.Stderr, 300), inp, tag...)
	}
}

var c11RaceCmds = []string{"compare trees", "compare trees --weighted", "compare trees --binary", "compare trees --rf", "compare trees -l", "compare edges",
	"compute support fbp", "compute support tbe", "compute support tbe --moved-taxa --per-branches", "compute support classical", "compute support booster", "compute consensus",
	"annotate"}

// c11CLIRace runs the shipped command, built with -race, on a well-formed stream with several thread counts:
// race reports of the child go to the race log of this chunk (the driver parses them), results must equal -t 1.
func c11CLIRace(c *Ctx, o *Obs, r *rand.Rand, cmdline string, rep int) {
	bin := os.Getenv("VERIF_GOTREE_RACE")
	ntrees, ntax := gen.Pick(r, 30, 60, 100), gen.Pick(r, 12, 25, 40)
	refText, boots := c11Trees(r, ntrees, ntax)
	inp := fmt.Sprintf("gotree(-race build) %s\nref: %s\ntrees (%d):\n%s", cmdline, refText, len(boots), strings.Join(boots, "\n"))
	o.Sample = Trunc(inp, 400)
	o.Class = "cli-race/" + cmdline
	o.SetFP("cli-race", cmdline, refText, strings.Join(boots, "\n"))
	o.Nontrivial = true
	c.Announce(inp)
	if _, err := os.Stat(bin); err != nil {
		o.Inconclusive = "no -race build of the gotree command: " + err.Error()
		return
	}
	fr := tmpFile(c, "c11ref.nw", refText+"\n")
	fb := tmpFile(c, "c11trees.nw", strings.Join(boots, "\n")+"\n")
	env := []string{"GORACE=halt_on_error=0 log_path=" + c.Tmp + "/race-cli"}
	var base []string
	for _, th := range []int{1, 2, 8, 16} {
		args := strings.Fields(cmdline)
		switch {
		case args[0] == "annotate":
			// two inputs read at the same time by two reader goroutines, both full of bracket comments
			withComments := func(s string) string {
				return regexp.MustCompile(`\bt[0-9]+\b`).ReplaceAllString(s, "$0[&origin=$0,note=\"a comment of some length\"]")
			}
			fi := tmpFile(c, "c11annot-in.nw", withComments(strings.Join(boots, "\n"))+"\n")
			fc := tmpFile(c, "c11annot-cmp.nw", withComments(refText)+"\n")
			args = append(args, "-i", fi, "-c", fc)
		case args[0] == "compare":
			args = append(args, "-i", fr, "-c", fb)
		case args[1] == "consensus":
			args = append(args, "-i", fb)
		default:
			args = append(args, "-i", fr, "-b", fb, "--silent", "-l", "none")
		}
		args = append(args, "-t", fmt.Sprint(th), "--seed", "1")
		res := runBin(c, bin, env, 120*time.Second, "", args...)
		o.Ev("cli_race_runs", 1)
		what := fmt.Sprintf("gotree %s -t %d (race build)", cmdline, th)
		if res.TimedOut {
			if res.CPU < 5 {
				o.Fail("hang", fmt.Sprintf("%s: still there after 120 s having used %.2f CPU seconds (blocked)", what, res.CPU), inp, "fn", "cli "+cmdline)
			} else {
				o.Inconclusive = what + ": wall-clock watchdog"
			}
			return
		}
		if !o.Check(res.Exit == 0 && !res.Panic && !res.Signal, "cli_failed", what+": "+res.brief(), inp, "fn", "cli "+cmdline) {
			return
		}
		lines := sortedLines(res.Stdout)
		if th == 1 {
			base = lines
		} else {
			o.Check(strings.Join(lines, "\n") == strings.Join(base, "\n"), "result_differs", what+": records differ from -t 1: "+firstDiff(strings.Join(base, "\n"), strings.Join(lines, "\n")), inp, "fn", "cli "+cmdline)
		}
	}
}
