package props

import (
	"fmt"
	"regexp"
	"strings"

	"github.com/evolbioinfo/gotree/tree"

	"verif/gen"
	"verif/mon"
	"verif/ref"
)

func init() {
	Register(&Prop{
		ID:       "C15",
		Chunk:    40,
		NeedsCLI: true,
		Count: func(c *Ctx) int {
			if c.Thorough() {
				return 40000
			}
			return 1600
		},
		Rule: "case kinds by index: graft (every tip position on small trees), merge of two rooted trees with disjoint tips, insertion of identical tips (and the same group slices applied to a second copy; every third such case also through gotree repopulate with the groups in a file), removal of single-child nodes placed at random (chains, under the root), subtree at every inner node including the root, clone text identity with node/root/branch comments, and independence: a random edit history on one twin while the other twin's text, structure and (when they described it at the start) indexes are re-observed after every step (both directions); non-trivial = the edit added/removed something and >= 3 pre-existing tips were compared, or >= 4 successful steps on a twin; distinct by inputs",
		Assumptions: []string{
			"path sums to 1e-9 relative with absent length = 0; Merge's new root branches are not asserted (their length is a convention)",
		},
		Run: runC15,
	})
}

func runC15(c *Ctx, idx int, o *Obs) {
	r := c.Rng("C15", idx)
	n := gen.Size(r, 3, 60)
	mk := func(n int, rootDeg int, singles float64, comments bool) *ref.Tree {
		shape := gen.Pick(r, "random", "random", "caterpillar", "balanced", "star", "broom")
		if rootDeg == 2 && shape == "star" {
			shape = "random"
		}
		op := gen.Opts{N: n, Shape: shape, RootDeg: rootDeg,
			MultiP: gen.Pick(r, 0.0, 0.3), Lens: gen.Pick(r, "all", "all", "mixed", "none"), LenCls: gen.Pick(r, "len", "tie", "neg"),
			SupP: gen.Pick(r, 0.0, 0.5), SupCls: "unit", InnerNameP: gen.Pick(r, 0.0, 0.3), SingleP: singles}
		if comments {
			op.NodeComP, op.EdgeComP, op.RootNameP = 0.4, 0.5, 0.3
			op.Lens = "all"
		}
		return gen.Tree(r, op)
	}
	distSubset := func(before, after map[string]float64, keep map[string]bool, scale float64) string {
		for k, v := range before {
			p := strings.SplitN(k, "\x00", 2)
			if keep != nil && (!keep[p[0]] || !keep[p[1]]) {
				continue
			}
			w, ok := after[k]
			if !ok {
				return "pair " + p[0] + "|" + p[1] + " missing"
			}
			if !closeTo(v, w, scale) {
				return fmt.Sprintf("distance %s|%s: %v -> %v", p[0], p[1], v, w)
			}
		}
		return ""
	}
	switch idx % 7 {
	case 0: // graft
		R := mk(n, gen.Pick(r, 0, 2, 3), 0, false)
		text := R.Newick()
		G := mk(2+r.Intn(8), gen.Pick(r, 2, 3), 0, false)
		for i, tp := range modelTips(G) {
			tp.Name = fmt.Sprintf("g%d", i)
		}
		gtext := G.Newick()
		o.Class = "graft"
		o.Sample = Trunc(text+" + graft "+gtext, 400)
		o.SetFP(text, gtext)
		bm := modelOf(mustParse(text))
		bd, gd := bm.Dist(ref.MLen), modelOf(mustParse(gtext)).Dist(ref.MLen)
		tips := bm.SortedTips()
		pos := r.Perm(len(tips))
		if len(pos) > 8 {
			pos = pos[:8]
		}
		for _, pi := range pos {
			tip := tips[pi]
			t := mustParse(text)
			// one graft in three carries a tip with the very name of the tip it replaces (no name is duplicated in
			// the result: the old tip goes away)
			gtext, gd, gTips := gtext, gd, G.SortedTips()
			sameName := false
			if r.Intn(3) == 0 && regexp.MustCompile(`^[A-Za-z0-9_]+$`).MatchString(tip) {
				gtext = regexp.MustCompile(`\bg0\b`).ReplaceAllString(gtext, tip)
				gm := modelOf(mustParse(gtext))
				gd, gTips, sameName = gm.Dist(ref.MLen), gm.SortedTips(), true
				o.Ev("graft_with_the_name_of_the_replaced_tip", 1)
			}
			g := mustParse(gtext)
			if r.Intn(2) == 0 {
				t.ReinitIndexes()
			} else {
				t.UpdateTipIndex()
			}
			err := t.GraftTreeOnTip(tip, g)
			o.Ev("GraftTreeOnTip", 1)
			inp := text + " ; GraftTreeOnTip(" + tip + ", " + gtext + ")"
			if !o.Check(err == nil, "graft_error", fmt.Sprint(err), inp) {
				continue
			}
			if !checkStructure(o, t, inp) {
				continue
			}
			am := modelOf(t)
			want := append(complement(tips, []string{tip}), gTips...)
			o.Check(sameStrings(sortedCopy(want), am.SortedTips()), "graft_tipset", "tip set is not old - replaced + grafted", inp+" => "+Trunc(t.Newick(), 1500))
			ad := am.Dist(ref.MLen)
			keep := setOf(complement(tips, []string{tip}))
			d := distSubset(bd, ad, keep, totalLen(am))
			o.Check(d == "", "graft_distance", "between pre-existing tips: "+d, inp+" => "+Trunc(t.Newick(), 1500))
			d = distSubset(gd, ad, nil, totalLen(am))
			o.Check(d == "", "graft_distance", "inside the grafted tree: "+d, inp+" => "+Trunc(t.Newick(), 1500))
			// the old tip is no longer reachable
			for _, x := range am.Tips() {
				if x == tip && !sameName {
					o.Check(false, "graft_old_tip", "replaced tip still in the tree", inp)
				}
			}
			if len(keep) >= 3 {
				o.Nontrivial = true
			}
		}
	case 1: // merge
		A, B := mk(n, 2, 0, false), mk(2+r.Intn(20), 2, 0, false)
		for i, tp := range modelTips(B) {
			tp.Name = fmt.Sprintf("m%d", i)
		}
		ta, tb := A.Newick(), B.Newick()
		o.Class = "merge"
		o.Sample = Trunc(ta+" + "+tb, 400)
		o.SetFP(ta, tb)
		t, t2 := mustParse(ta), mustParse(tb)
		t.ReinitIndexes()
		t2.ReinitIndexes()
		da, db := modelOf(t).Dist(ref.MLen), modelOf(t2).Dist(ref.MLen)
		err := t.Merge(t2)
		o.Ev("Merge", 1)
		inp := ta + " ; Merge(" + tb + ")"
		if o.Check(err == nil, "merge_error", fmt.Sprint(err), inp) && checkStructure(o, t, inp) {
			am := modelOf(t)
			o.Check(sameStrings(sortedCopy(append(A.Tips(), B.Tips()...)), am.SortedTips()), "merge_tipset", "tip set is not the union", inp)
			o.Check(len(am.Root.Children) == 2, "merge_root", fmt.Sprintf("new root has %d children", len(am.Root.Children)), inp)
			ad := am.Dist(ref.MLen)
			if d := distSubset(da, ad, nil, totalLen(am)); d != "" {
				o.Check(false, "merge_distance", "inside the first tree: "+d, inp+" => "+Trunc(t.Newick(), 1500))
			}
			if d := distSubset(db, ad, nil, totalLen(am)); d != "" {
				o.Check(false, "merge_distance", "inside the second tree: "+d, inp+" => "+Trunc(t.Newick(), 1500))
			}
			o.Asserts += 2
			o.Nontrivial = n >= 3
		}
		// common tip name => refused
		t, t2 = mustParse(ta), mustParse(ta)
		t.ReinitIndexes()
		t2.ReinitIndexes()
		o.Check(t.Merge(t2) != nil, "merge_common_accepted", "trees with common tip names merged", ta)
	case 2: // identical tips
		R := mk(n, gen.Pick(r, 0, 2, 3), 0, false)
		text := R.Newick()
		o.Class = "insert_identical"
		t := mustParse(text)
		t.ReinitIndexes()
		bm := modelOf(t)
		tips := bm.SortedTips()
		bd := bm.Dist(ref.MLen)
		var groups [][]string
		model := map[string]string{}
		k := 0
		for _, tp := range randSubset(r, tips, 1+r.Intn(min(4, len(tips)))) {
			g := []string{tp}
			for j := 1 + r.Intn(3); j > 0; j-- {
				nm := fmt.Sprintf("id%d", k)
				k++
				g = append(g, nm)
				model[nm] = tp
			}
			r.Shuffle(len(g), func(i, j int) { g[i], g[j] = g[j], g[i] })
			groups = append(groups, g)
		}
		if r.Intn(4) == 0 {
			groups = append(groups, []string{tips[r.Intn(len(tips))]}) // group without a new member
		}
		inp := fmt.Sprintf("%s ; InsertIdenticalTips(%v)", text, groups)
		o.Sample = Trunc(inp, 400)
		o.SetFP(inp)
		err := t.InsertIdenticalTips(groups)
		o.Ev("InsertIdenticalTips", 1)
		if o.Check(err == nil, "insert_error", fmt.Sprint(err), inp) && checkStructure(o, t, inp) {
			am := modelOf(t)
			want := append([]string{}, tips...)
			for nm := range model {
				want = append(want, nm)
			}
			o.Check(sameStrings(sortedCopy(want), am.SortedTips()), "insert_tipset", "tip set is not old + requested", inp+" => "+Trunc(t.Newick(), 1500))
			ad := am.Dist(ref.MLen)
			d := distSubset(bd, ad, setOf(tips), totalLen(am))
			o.Check(d == "", "insert_distance", "between pre-existing tips: "+d, inp+" => "+Trunc(t.Newick(), 1500))
			for nm, tp := range model {
				a, b := nm, tp
				if a > b {
					a, b = b, a
				}
				v, ok := ad[a+"\x00"+b]
				o.Check(ok && v == 0, "insert_not_identical", fmt.Sprintf("%s sits at distance %v from its model %s", nm, v, tp), inp+" => "+Trunc(t.Newick(), 1500))
			}
			o.Nontrivial = len(tips) >= 3
			// the same groups (the very same slices) on a second copy of the tree: as for a file of several trees
			t2 := mustParse(text)
			t2.ReinitIndexes()
			if err := t2.InsertIdenticalTips(groups); o.Check(err == nil, "insert_error", "second tree, same groups: "+fmt.Sprint(err), inp) {
				o.Check(t2.Newick() == t.Newick(), "insert_second_tree_differs", fmt.Sprintf("the same groups applied to a second copy give %s, the first gave %s", Trunc(t2.Newick(), 700), Trunc(t.Newick(), 700)), inp)
			}
			o.Ev("InsertIdenticalTips_second_tree", 1)
			// the command, on a file holding the tree twice, with the groups in a file (one group per line); one group
			// is made longer than 4096 bytes, the file may lack its final newline
			if (idx/7)%3 == 0 && c.Gotree != "" && plainNewick(text) {
				g2 := make([][]string, len(groups))
				want2 := append([]string{}, want...)
				model2 := map[string]string{}
				for nm, tp := range model {
					model2[nm] = tp
				}
				for i, g := range groups {
					g2[i] = append([]string{}, g...)
				}
				layout := gen.Pick(r, "plain", "long-line", "no-final-newline", "long-line", "names-with-blanks")
				if layout == "names-with-blanks" {
					// unquoted labels may contain blanks: new tips called "identical copy N"
					for i, g := range g2 {
						for j, nm := range g {
							if tp, isNew := model[nm]; isNew {
								nn := fmt.Sprintf("identical copy %d %d", i, j)
								g2[i][j] = nn
								delete(model2, nm)
								model2[nn] = tp
								for k, w := range want2 {
									if w == nm {
										want2[k] = nn
									}
								}
							}
						}
					}
				}
				if strings.HasPrefix(layout, "long") && len(g2) > 0 {
					// the existing tip of the first group gets several hundred more identical tips
					var existing string
					for _, nm := range g2[0] {
						if _, isNew := model[nm]; !isNew {
							existing = nm
						}
					}
					for j := 0; len(strings.Join(g2[0], ",")) < 6000; j++ {
						nm := fmt.Sprintf("identical_copy_%04d", j)
						g2[0] = append(g2[0], nm)
						model2[nm] = existing
						want2 = append(want2, nm)
					}
				}
				var lines []string
				for _, g := range g2 {
					lines = append(lines, strings.Join(g, ","))
				}
				content := strings.Join(lines, "\n") + "\n"
				if layout == "no-final-newline" {
					content = strings.TrimSuffix(content, "\n")
				}
				gf := tmpFile(c, "c15groups.txt", content)
				tf := tmpFile(c, "c15trees.nw", text+"\n"+text+"\n")
				res, _ := runCLIOut(c, r, "", "repopulate", "-i", tf, "-g", gf)
				o.Ev("cli_repopulate:"+layout, 1)
				what := "gotree repopulate (groups file layout " + layout + ") on a file holding the tree twice"
				inp2 := inp + "\ngroups file: " + Trunc(content, 400)
				if o.Check(res.Exit == 0 && !res.Panic, "cli_repopulate_failed", what+": "+res.brief(), inp2) {
					outs := strings.Split(strings.TrimSpace(res.Stdout), "\n")
					if o.Check(len(outs) == 2, "cli_repopulate_count", fmt.Sprintf("%s: %d output trees", what, len(outs)), inp2) {
						for k, ln := range outs {
							ct, err := parseNewick(ln)
							if !o.Check(err == nil, "cli_repopulate_output", fmt.Sprintf("%s, tree %d: %v", what, k, err), inp2) {
								continue
							}
							cm := modelOf(ct)
							o.Check(sameStrings(sortedCopy(want2), cm.SortedTips()), "cli_insert_tipset", fmt.Sprintf("%s, tree %d: tip set is not old + requested (%d tips, %d expected)", what, k, len(cm.Tips()), len(want2)), inp2)
							cd := cm.Dist(ref.MLen)
							if d := distSubset(bd, cd, setOf(tips), totalLen(cm)); d != "" {
								o.Fail("cli_insert_distance", fmt.Sprintf("%s, tree %d: between pre-existing tips: %s", what, k, d), inp2)
							}
							for nm, tp := range model2 {
								a, b := nm, tp
								if a > b {
									a, b = b, a
								}
								if v, ok := cd[a+"\x00"+b]; !ok || v != 0 {
									o.Fail("cli_insert_not_identical", fmt.Sprintf("%s, tree %d: %s sits at distance %v from its model %s", what, k, nm, v, tp), inp2)
									break
								}
							}
						}
					}
				}
			}
		}
	case 3: // single-child nodes
		R := mk(n, gen.Pick(r, 0, 2, 3), gen.Pick(r, 0.1, 0.3, 0.6), false)
		text := R.Newick()
		o.Class = "remove_single_nodes"
		o.Sample = Trunc(text, 400)
		o.SetFP(text)
		t := mon.Build(R)
		if r.Intn(2) == 0 {
			t = mustParse(text)
		}
		bm := modelOf(t)
		bd := bm.Dist(ref.MLen)
		nsingle := 0
		for _, nd := range allNodes(bm)[1:] {
			if len(nd.Children) == 1 {
				nsingle++
			}
		}
		t.RemoveSingleNodes()
		o.Ev("RemoveSingleNodes", 1)
		if checkStructure(o, t, text+" ; RemoveSingleNodes()") {
			am := modelOf(t)
			inp := text + " ; RemoveSingleNodes() => " + Trunc(t.Newick(), 1500)
			o.Check(sameStrings(bm.SortedTips(), am.SortedTips()), "singles_tipset", "tip set changed", inp)
			left := 0
			for _, nd := range allNodes(am)[1:] {
				if len(nd.Children) == 1 {
					left++
				}
			}
			o.Check(left == 0, "singles_left", fmt.Sprintf("%d single-child inner nodes left", left), inp)
			d := distSubset(bd, am.Dist(ref.MLen), nil, totalLen(bm))
			o.Check(d == "", "singles_distance", d, inp, "lens", "any")
			o.Nontrivial = nsingle > 0 && len(bm.Tips()) >= 3
		}
	case 4: // subtree at every inner node
		R := mk(n, gen.Pick(r, 0, 2, 3), 0, true)
		text := R.Newick()
		o.Class = "subtree"
		o.Sample = Trunc(text, 400)
		o.SetFP(text)
		t0 := mustParse(text)
		nn := len(t0.Nodes())
		for _, k := range r.Perm(nn)[:min(nn, 12)] {
			t := mustParse(text)
			prior := ""
			switch r.Intn(4) {
			case 1: // the tree object has been re-rooted before (the parent is no longer the first neighbour everywhere)
				if in := innerNodes(t); len(in) > 0 && !hasSingles(t) && !t.Rooted() { // re-rooting a rooted tree leaves a single-child node behind
					if err := t.Reroot(in[r.Intn(len(in))]); err == nil {
						prior = "Reroot; "
					}
				}
			case 2: // a tree was grafted on one of its tips before
				if err := t.UpdateTipIndex(); err == nil {
					tn := tipNames(t)
					g := gen.Tree(r, gen.Opts{N: 3 + r.Intn(3), Shape: "random", RootDeg: 2, Lens: "all", LenCls: "tie"})
					for j, m := range modelTips(g) {
						m.Name = fmt.Sprintf("grafted%d", j)
					}
					if err := t.GraftTreeOnTip(tn[r.Intn(len(tn))], mon.Build(g)); err == nil {
						prior = "GraftTreeOnTip; "
					}
				}
			}
			nodes := t.Nodes()
			nd := nodes[k%len(nodes)]
			if nd.Tip() {
				continue
			}
			var p *tree.Node
			if nd != t.Root() { // the root is an inner node too: its subtree is the whole tree
				p, _ = nd.Parent()
			} else {
				o.Ev("SubTree_at_root", 1)
			}
			var below []string
			namesBelow(nd, p, &below)
			before := t.Newick()
			st := t.SubTree(nd)
			o.Ev("SubTree", 1)
			inp := fmt.Sprintf("%s ; %sSubTree(node above {%s})", text, prior, short(sortedCopy(below)))
			if !checkStructure(o, st, inp) {
				continue
			}
			o.Check(t.Newick() == before, "subtree_source_changed", "extracting a subtree changed the source", inp)
			sm := modelOf(st)
			want := reduce(modelOf(t).Restrict(setOf(below)), true)
			// the model clade: same tips, same splits/lengths/distances as the restriction to the clade
			got := reduce(sm, true)
			if len(below) >= 2 {
				d := sameTree(want, got, false)
				o.Check(d == "", "subtree_not_clade", d, inp+" => "+Trunc(st.Newick(), 1500))
			}
			if len(below) >= 3 {
				o.Nontrivial = true
			}
		}
	case 5: // clone is an exact copy
		R := mk(n, gen.Pick(r, 0, 2, 3), 0, true)
		text := R.Newick()
		o.Class = "clone_text"
		o.Sample = Trunc(text, 400)
		o.SetFP(text)
		for _, t := range []*tree.Tree{mustParse(text), mon.Build(R)} {
			if r.Intn(2) == 0 {
				t.ReinitIndexes()
			}
			indexed := false
			if _, err := t.TipIndex(t.Tips()[0].Name()); err == nil {
				indexed = true
			}
			cl := t.Clone()
			o.Ev("Clone", 1)
			if indexed {
				// the copy of an indexed tree answers name look-ups with ITS OWN nodes
				own := map[*tree.Node]bool{}
				for _, nd := range cl.Tips() {
					own[nd] = true
				}
				for _, nd := range cl.Tips() {
					got, err := cl.TipNode(nd.Name())
					if !o.Check(err == nil && own[got] && got == nd, "clone_index_points_elsewhere",
						fmt.Sprintf("clone.TipNode(%q) does not return the clone's own tip (err %v)", nd.Name(), err), t.Newick()) {
						break
					}
				}
			}
			o.Check(cl.Newick() == t.Newick(), "clone_text_differs", fmt.Sprintf("clone writes %q", Trunc(cl.Newick(), 600)), t.Newick())
			checkStructure(o, cl, "Clone of "+Trunc(text, 300))
			d := ref.Diff(modelOf(t).Root, modelOf(cl).Root, "root", true)
			o.Check(d == "", "clone_differs", d, t.Newick())
		}
		o.Nontrivial = strings.Contains(text, "[")
	default: // independence of twins
		R := mk(n, gen.Pick(r, 0, 2, 3), 0, true)
		text := R.Newick()
		src := mustParse(text)
		if r.Intn(2) == 0 {
			src.ReinitIndexes()
		}
		var twin *tree.Tree
		kind := "clone"
		if r.Intn(3) == 0 {
			var cand []*tree.Node
			for _, nd := range src.Nodes() {
				if !nd.Tip() && nd.Nneigh() >= 3 {
					var p *tree.Node
					if nd != src.Root() {
						p, _ = nd.Parent()
					}
					var b []string
					namesBelow(nd, p, &b)
					if len(b) >= 3 {
						cand = append(cand, nd)
					}
				}
			}
			if len(cand) > 0 {
				twin = src.SubTree(cand[r.Intn(len(cand))])
				kind = "subtree"
			}
		}
		if twin == nil {
			twin = src.Clone()
		}
		edited, watched := twin, src
		dir := "edit the copy, watch the source"
		if r.Intn(2) == 0 {
			edited, watched = src, twin
			dir = "edit the source, watch the copy"
		}
		o.Class = "independence/" + kind
		h := &hist{r: r, t: edited}
		if tp := edited.Tips(); len(tp) > 0 {
			_, err := edited.TipIndex(tp[0].Name())
			h.indexFresh = err == nil // a twin of an indexed tree is used as handed over
		}
		wText := watched.Newick()
		wModel := modelOf(watched)
		// when the watched twin's indexes describe it now, they must go on doing so whatever happens to the other one
		wIndexed := indexMonitor(&Obs{}, watched, "")
		if wIndexed {
			o.Ev("watched_twin_indexed", 1)
		}
		steps := 4 + r.Intn(12)
		succ := 0
		for s := 0; s < steps; s++ {
			o.Sample = Trunc(text, 1200) + " :: " + kind + ", " + dir + " :: " + Trunc(strings.Join(h.log, " ; "), 2000)
			// one history in four starts with: tips renamed, then the indexes refreshed step by step in place
			if wIndexed && idx%4 == 1 && s < 2 {
				h.only, h.forceKeep = map[string]bool{[]string{"Rename", "RefreshIndexesPiecewise"}[s]: true}, true
			} else {
				h.only, h.forceKeep = nil, false
			}
			name, desc, ok := h.step()
			if name == "" {
				break
			}
			if name == "Clone" || name == "SubTree" {
				// the history moved to yet another copy; keep editing that one, the watched twin stays
			}
			o.Ev("op:"+name, 1)
			if ok {
				succ++
			}
			inp := o.Sample + " ; " + desc
			if !o.Check(watched.Newick() == wText, "twin_text_changed", fmt.Sprintf("the untouched twin now writes %q", Trunc(watched.Newick(), 600)), inp, "kind", kind) {
				break
			}
			if _, ps := mon.Walk(watched, true); len(ps) > 0 {
				o.Fail("twin_structure_broken", ps[0].Kind+": "+ps[0].Detail, inp)
				break
			}
			o.Asserts++
			if d := ref.Diff(wModel.Root, modelOf(watched).Root, "root", true); d != "" {
				o.Fail("twin_changed", d, inp)
				break
			}
			if wIndexed {
				before := len(o.Viols)
				if indexMonitor(o, watched, inp); len(o.Viols) > before {
					o.Viols[len(o.Viols)-1].Kind = "twin_index_changed"
					break
				}
			}
		}
		o.SetFP(text, kind, dir, strings.Join(h.log, ";"))
		o.Nontrivial = succ >= 4
	}
}
