package props

import (
	"fmt"
	"math"
	"math/rand"
	"strconv"
	"strings"

	"github.com/evolbioinfo/gotree/tree"

	"verif/gen"
	"verif/ref"
)

func init() {
	Register(&Prop{
		ID:       "C09",
		Chunk:    40,
		NeedsCLI: true,
		Count: func(c *Ctx) int {
			if c.Thorough() {
				return 40000
			}
			return 1600
		},
		Rule: "case = collection of 1..40 trees on 4..40 taxa (bootstrap-like perturbations of one tree: random NNIs, contractions, rooted and unrooted presentations mixed; completely unresolved trees; negative lengths; one case in twenty with 255..1000 trees on 4..9 taxa) x cutoff (dyadic values with n chosen so that count = cutoff*n occurs exactly; arbitrary cutoffs with near-boundary splits excluded); naive frequency table as oracle; order/rooting/rotation invariance; rejection clauses (library; through the command also thresholds written 50, 70, 100, 1e2); non-trivial = the frequency table has a split with 0 < count < n and the consensus keeps an inner branch; distinct by the collection text",
		Assumptions: []string{
			"all branch lengths present (the quantifier says 'with lengths'); mean lengths compared to 1e-9 relative, supports to 1e-12",
			"for non-dyadic cutoffs a split with |count - cutoff*n| < 1e-6 is not asserted (rounding question)",
		},
		Run: runC09,
	})
}

// perturb applies k random NNIs / contractions to a copy and returns its text in a random presentation.
func perturbedTree(r *rand.Rand, base string, k int, rooted bool, lenCls string) string {
	t := mustParse(base)
	for i := 0; i < k; i++ {
		if r.Intn(5) == 0 {
			es := t.InternalEdges()
			if len(es) > 1 {
				t.RemoveEdges(false, false, es[r.Intn(len(es))])
			}
			continue
		}
		var rs []tree.Rearrangement
		(&tree.NNIRearranger{}).Rearrange(t, func(x tree.Rearrangement) bool { rs = append(rs, x); return true })
		if len(rs) > 0 {
			rs[r.Intn(len(rs))].Apply()
		}
	}
	// fresh lengths so that means are not trivial
	for _, e := range t.Edges() {
		e.SetLength(gen.Float(r, lenCls))
	}
	var cand []*tree.Node
	for _, x := range innerNodes(t) {
		if x.Nneigh() >= 3 {
			cand = append(cand, x)
		}
	}
	if len(cand) > 0 {
		t.Reroot(cand[r.Intn(len(cand))])
	}
	rand.Seed(r.Int63())
	t.RotateInternalNodes()
	if rooted {
		tips := tipNames(t)
		es := t.Edges()
		e := es[r.Intn(len(es))]
		var og []string
		namesBelow(e.Right(), e.Left(), &og)
		if len(og) < len(tips) {
			if err := t.RerootOutGroup(false, false, og...); err != nil {
				return t.Newick()
			}
			// RerootOutGroup drops a zero length: give both root branches a length again
			for _, re := range t.Root().Edges() {
				if re.Length() == tree.NIL_LENGTH {
					re.SetLength(gen.Float(r, lenCls))
				}
			}
		}
	}
	return t.Newick()
}

// usedObject returns a tree object that IS the tree written in text, but has a past: it was read under another
// name for one tip, indexed, and then renamed into its final state through the public API, without the caller
// re-indexing (Node.SetName leaves the name index behind, Tree.Rename refreshes the name index but not the
// bitsets). Functions that take trees must not trust whatever indexes an object happens to carry.
func usedObject(r *rand.Rand, text string) *tree.Tree {
	t := mustParse(text)
	tips := t.Tips()
	if len(tips) == 0 {
		return t
	}
	tp := tips[r.Intn(len(tips))]
	final := tp.Name()
	tmp := "zzz_formerly_" + fmt.Sprint(r.Intn(1000))
	tp.SetName(tmp)
	if err := t.ReinitIndexes(); err != nil {
		return mustParse(text)
	}
	switch r.Intn(3) {
	case 0:
		tp.SetName(final)
	case 1:
		if err := t.Rename(map[string]string{tmp: final}); err != nil {
			return mustParse(text)
		}
	default:
		tp.SetName(final)
		t.ComputeDepths()
	}
	if t.Newick() != mustParse(text).Newick() {
		return mustParse(text)
	}
	return t
}

// treesChanUsed is treesChan with about a third of the trees being used objects.
func treesChanUsed(r *rand.Rand, texts []string) <-chan tree.Trees {
	ch := make(chan tree.Trees, len(texts))
	for i, s := range texts {
		if r.Intn(3) == 0 {
			ch <- tree.Trees{Tree: usedObject(r, s), Id: i}
		} else {
			ch <- tree.Trees{Tree: mustParse(s), Id: i}
		}
	}
	close(ch)
	return ch
}

func treesChan(texts []string) <-chan tree.Trees {
	ch := make(chan tree.Trees, len(texts))
	for i, s := range texts {
		ch <- tree.Trees{Tree: mustParse(s), Id: i}
	}
	close(ch)
	return ch
}

type freq struct {
	count int
	len   float64
	triv  bool
}

func freqTable(texts []string, tx *ref.Taxa) map[ref.Key]*freq {
	tab := map[ref.Key]*freq{}
	for _, s := range texts {
		for k, sp := range modelOf(mustParse(s)).Splits(tx) {
			f := tab[k]
			if f == nil {
				f = &freq{triv: sp.Trivial}
				tab[k] = f
			}
			f.count++
			f.len += sp.Len
		}
	}
	return tab
}

func runC09(c *Ctx, idx int, o *Obs) {
	r := c.Rng("C09", idx)
	ntax := gen.Size(r, 4, 40)
	dyadic := []float64{0.5, 0.5625, 0.625, 0.75, 0.875, 1}
	var cutoff float64
	var ntrees int
	exact := idx%2 == 0
	if exact {
		cutoff = dyadic[r.Intn(len(dyadic))]
		ntrees = gen.Pick(r, 1, 2, 4, 8, 16, 16, 32)
		if r.Intn(4) == 0 {
			ntrees = 1 + r.Intn(40)
		}
	} else {
		cutoff = 0.5 + r.Float64()/2
		ntrees = 1 + r.Intn(40)
	}
	// large collections of small trees: counts beyond one byte, frequencies with many distinct values
	switch idx % 40 {
	case 6:
		ntax, ntrees = 4+r.Intn(6), gen.Pick(r, 256, 512)
	case 7:
		ntax, ntrees = 4+r.Intn(6), gen.Pick(r, 255, 257, 300, 1000)
	}
	o.AddSet("list:collection_sizes", fmt.Sprint(ntrees))
	lenCls := gen.Pick(r, "len", "tie", "len", "neg") // negative lengths are legal and enter the means like any other
	base := gen.Tree(r, gen.Opts{N: ntax, Shape: gen.Pick(r, "random", "random", "caterpillar", "balanced"), RootDeg: 3,
		MultiP: gen.Pick(r, 0.0, 0.0, 0.2), Lens: "all", LenCls: lenCls, Names: gen.Pick(r, "simple", "simple", "hostile")})
	baseText := base.Newick()
	strength := gen.Pick(r, 0, 1, 2, 4, 8)
	rootedP := gen.Pick(r, 0.0, 0.0, 0.3, 1.0)
	starP := gen.Pick(r, 0.0, 0.0, 0.1, 0.5)
	var texts []string
	anyRooted := false
	for i := 0; i < ntrees; i++ {
		k := 0
		if strength > 0 {
			k = r.Intn(strength + 1)
		}
		rooted := r.Float64() < rootedP
		s := perturbedTree(r, baseText, k, rooted, lenCls)
		if r.Float64() < starP {
			// a completely unresolved tree: it has no split of its own but counts in every denominator and mean
			st := mustParse(baseText)
			st.RemoveEdges(false, false, st.InternalEdges()...)
			for _, e := range st.Edges() {
				e.SetLength(gen.Float(r, lenCls))
			}
			rand.Seed(r.Int63())
			st.RotateInternalNodes()
			s = st.Newick()
			o.Ev("star_tree_in_collection", 1)
		}
		if len(modelOf(mustParse(s)).Root.Children) == 2 {
			anyRooted = true
		}
		texts = append(texts, s)
	}
	inp := fmt.Sprintf("cutoff=%v trees:\n%s", cutoff, strings.Join(texts, "\n"))
	o.Sample = Trunc(inp, 500)
	o.SetFP(inp)
	o.Class = fmt.Sprintf("n%d/%s/rooted=%v", ntrees, map[bool]string{true: "dyadic", false: "arbitrary"}[exact], anyRooted)
	tx := ref.NewTaxa(base.Tips())
	tab := freqTable(texts, tx)

	judge := func(what string, cons *tree.Tree) *reduction {
		res := reduce(modelOf(cons), false)
		inp2 := inp + "\n=> " + what + " " + Trunc(cons.Newick(), 2000)
		if !o.Check(sameStrings(res.tx.Names, tx.Names), "consensus_tips", what+": tip set differs from the inputs'", inp2) {
			return nil
		}
		n := float64(ntrees)
		spread := false
		for k, f := range tab {
			if f.count > 0 && f.count < ntrees {
				spread = true
			}
			want := float64(f.count) > cutoff*n || f.count == ntrees
			if !exact && math.Abs(float64(f.count)-cutoff*n) < 1e-6 && f.count != ntrees {
				continue
			}
			s, present := res.splits[k]
			if f.triv {
				// tip branch: mean length
				if o.Check(present, "consensus_tip_missing", what+": tip branch missing", inp2) {
					o.Check(closeTo(s.Len, f.len/float64(f.count), math.Abs(f.len)), "consensus_tip_length",
						fmt.Sprintf("%s: tip branch %s has length %v, mean over the trees is %v", what, tx.Show(k), s.Len, f.len/float64(f.count)), inp2, "rooted", fmt.Sprint(anyRooted))
				}
				continue
			}
			if want {
				if !o.Check(present, "consensus_missing", fmt.Sprintf("%s: split %s occurs in %d of %d trees (cutoff %v) but is not in the consensus", what, tx.Show(k), f.count, ntrees, cutoff), inp2,
					"rooted", fmt.Sprint(anyRooted), "in_all", fmt.Sprint(f.count == ntrees)) {
					continue
				}
				sup := s.Sups[0]
				o.Check(s.Mult == 1 && sup.Has && math.Abs(sup.V-float64(f.count)/n) <= 1e-12, "consensus_support",
					fmt.Sprintf("%s: split %s has support %v, frequency is %d/%d", what, tx.Show(k), sup, f.count, ntrees), inp2, "rooted", fmt.Sprint(anyRooted))
				o.Check(closeTo(s.Len, f.len/float64(f.count), math.Abs(f.len)), "consensus_length",
					fmt.Sprintf("%s: split %s has length %v, mean over the %d trees containing it is %v", what, tx.Show(k), s.Len, f.count, f.len/float64(f.count)), inp2, "rooted", fmt.Sprint(anyRooted))
			} else {
				o.Check(!present, "consensus_extra", fmt.Sprintf("%s: split %s occurs in only %d of %d trees (cutoff %v) but is in the consensus", what, tx.Show(k), f.count, ntrees, cutoff), inp2, "rooted", fmt.Sprint(anyRooted))
			}
		}
		kept := 0
		for k, s := range res.splits {
			if _, ok := tab[k]; !o.Check(ok, "consensus_invented", what+": split "+tx.Show(k)+" is in no input tree", inp2) {
				break
			}
			if !s.Trivial {
				kept++
			}
		}
		if spread && kept > 0 {
			o.Nontrivial = true
		}
		checkStructure(o, cons, what)
		return res
	}

	cons, err := tree.Consensus(treesChan(texts), cutoff)
	o.Ev("Consensus", 1)
	if !o.Check(err == nil, "consensus_error", fmt.Sprint(err), inp, "rooted", fmt.Sprint(anyRooted)) {
		return
	}
	r0 := judge("Consensus", cons)
	// the same collection, some trees being objects with a past (indexed under another name, then renamed)
	if consU, err := tree.Consensus(treesChanUsed(r, texts), cutoff); o.Check(err == nil, "consensus_error", "used tree objects: "+fmt.Sprint(err), inp) {
		o.Ev("Consensus_used_objects", 1)
		judge("Consensus (some input trees are previously indexed and renamed objects)", consU)
	}

	// invariance: permuted order, re-rooted and rotated inputs
	if r0 != nil && ntrees > 1 {
		p := r.Perm(ntrees)
		var texts2 []string
		for _, i := range p {
			t := mustParse(texts[i])
			if !t.Rooted() {
				var cand []*tree.Node
				for _, x := range innerNodes(t) {
					if x.Nneigh() >= 3 {
						cand = append(cand, x)
					}
				}
				t.Reroot(cand[r.Intn(len(cand))])
			}
			rand.Seed(r.Int63())
			t.RotateInternalNodes()
			texts2 = append(texts2, t.Newick())
		}
		cons2, err := tree.Consensus(treesChan(texts2), cutoff)
		o.Ev("Consensus", 1)
		if o.Check(err == nil, "consensus_error", "permuted/re-rooted inputs: "+fmt.Sprint(err), inp) {
			r2 := reduce(modelOf(cons2), false)
			d := sameTree(r0, r2, false)
			o.Check(d == "", "consensus_order_dependent", "consensus changes with input order/rooting/rotation: "+d, inp+"\n=> "+cons.Newick()+"\nvs "+cons2.Newick())
		}
	}

	// rejection clauses
	for _, bad := range []float64{0.49, 0, -1, 1.01, 2, math.Nextafter(0.5, 0), 0.4999999999, math.Nextafter(1, 2), 1.0000000001} {
		_, err := tree.Consensus(treesChan(texts), bad)
		o.Check(err != nil, "consensus_cutoff_accepted", fmt.Sprintf("cutoff %v accepted", bad), inp)
	}
	if ntrees >= 1 {
		pos := r.Intn(ntrees + 1)
		m := modelOf(mustParse(texts[r.Intn(ntrees)]))
		variant := gen.Pick(r, "renamed", "extra")
		tips := modelTips(m)
		if variant == "renamed" {
			tips[r.Intn(len(tips))].Name = "other_taxon"
		} else {
			nd := tips[r.Intn(len(tips))]
			nd.Children = []*ref.Node{{Name: nd.Name, Len: ref.N(1)}, {Name: "other_taxon", Len: ref.N(1)}}
			nd.Name = ""
		}
		t2 := append(append(append([]string{}, texts[:pos]...), m.Newick()), texts[pos:]...)
		var err error
		if !o.Guard("consensus_mismatch_panic", strings.Join(t2, "\n"), func() { _, err = tree.Consensus(treesChan(t2), cutoff) }) {
			o.Ev("mismatch:"+variant, 1)
			o.Check(err != nil, "consensus_mismatch_accepted", fmt.Sprintf("a tree with a %s taxon at position %d of %d was accepted", variant, pos, len(t2)), strings.Join(t2, "\n"), "variant", variant)
		}
	}

	// the command
	if idx%8 == 2 {
		plain := true
		for _, s := range texts {
			plain = plain && plainNewick(s)
		}
		// Nexus wants one TAXA block (same taxa everywhere: true here); rooted and unrooted trees may be mixed
		inArgs, inStdin, inMode := presentTrees(c, r, "trees", texts, plain)
		o.Ev("cli_input:"+inMode, 1)
		res, outMode := runCLIOut(c, r, inStdin, append(append([]string{"compute", "consensus"}, inArgs...), "-f", strconv.FormatFloat(cutoff, 'g', -1, 64))...)
		o.Ev("cli_output:"+outMode, 1)
		o.Ev("cli", 1)
		if o.Check(res.Exit == 0 && !res.Panic, "cli_consensus_failed", res.brief(), inp) {
			ct, err := parseNewick(strings.TrimSpace(res.Stdout))
			if o.Check(err == nil, "cli_consensus_output", fmt.Sprint(err), inp) {
				judge("gotree compute consensus", ct)
			}
		}
		// rejection clause through the command: a threshold outside [0.5,1], however it is written
		bad := gen.Pick(r, "0.49", "0", "1.01", "2", "50", "70", "100", "1e2", "5e-1.0", "-0.7")
		rb := runCLI(c, inStdin, append(append([]string{"compute", "consensus"}, inArgs...), "-f", bad)...)
		o.Ev("cli_bad_threshold", 1)
		o.Check(!rb.Panic && !rb.Signal, "cli_crash", "gotree compute consensus -f "+bad+": "+rb.brief(), inp)
		o.Check(rb.Exit != 0 || strings.TrimSpace(rb.Stdout) == "", "cli_cutoff_accepted",
			fmt.Sprintf("gotree compute consensus -f %s: threshold outside [0.5,1] accepted, output %s", bad, Trunc(rb.Stdout, 300)), inp)
	}
}
