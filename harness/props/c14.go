package props

import (
	"fmt"
	"math"
	"math/rand"
	"sort"
	"strconv"
	"strings"

	"github.com/evolbioinfo/gotree/tree"

	"verif/gen"
	"verif/ref"
)

func init() {
	Register(&Prop{
		ID:       "C14",
		Chunk:    60,
		NeedsCLI: true,
		Count: func(c *Ctx) int {
			if c.Thorough() {
				return 60000
			}
			return 2400
		},
		Rule: "case = generated tree (all shapes, zero/absent lengths, present/absent supports) x 3 metrics, an average over 1..6 trees (one case in twenty: over 100..300 trees; tree identifiers 0..n-1, all 0, every other one or 1..n), and thresholds equal to a branch length, 1 ulp around it, below all, above all; oracle = model path sums and union-find components; every 8th case through gotree matrix / gotree brlen cut; non-trivial = tree has >= 4 tips and an inner branch, and some threshold gives between 2 and n-1 bags; distinct by text",
		Assumptions: []string{
			"the convention for an absent support in the 'boot' metric is estimated from the matrix itself (one pair of sibling tips): only consistency is asserted",
			"thresholds <= 0 only on trees without absent lengths (sentinel ambiguity); matrix entries compared to 1e-9 relative (re-association), mean to 1e-12",
		},
		Run: runC14,
	})
}

func matAt(m [][]float64, i, j int) float64 { return m[i][j] }

func runC14(c *Ctx, idx int, o *Obs) {
	r := c.Rng("C14", idx)
	maxTips := 80
	if c.Thorough() && idx%10 == 0 {
		maxTips = 300
	}
	n := gen.Size(r, 2, maxTips)
	lens := gen.Pick(r, "all", "all", "mixed", "none")
	R := gen.Tree(r, gen.Opts{N: n, Shape: gen.Pick(r, "random", "random", "random", "caterpillar", "balanced", "star", "broom"),
		RootDeg: gen.Pick(r, 0, 2, 3, 3, 5), MultiP: gen.Pick(r, 0.0, 0.3, 0.6), Lens: lens, LenCls: gen.Pick(r, "len", "tie", "dec", "neg"),
		SupP: gen.Pick(r, 0.0, 0.5, 1.0), SupCls: gen.Pick(r, "unit", "int"), Names: gen.Pick(r, "simple", "simple", "hostile")})
	text := R.Newick()
	o.Sample = Trunc(text, 400)
	o.SetFP(text)
	o.Class = fmt.Sprintf("%s/root%d/len-%s", "tree", len(R.Root.Children), lens)
	bm := modelOf(mustParse(text))
	names := bm.SortedTips()
	scale := totalLen(bm)

	// ---- matrices -------------------------------------------------------------------------
	pathSum := func(m *ref.Tree, w func(nd *ref.Node) float64) map[string]float64 {
		// weight every branch by w, then path sums
		cp := m.Clone()
		for _, nd := range allNodes(cp) {
			nd.Len = ref.N(w(nd))
		}
		return cp.Dist(ref.MLen)
	}
	checkMatrix := func(what string, mat [][]float64, tips []*tree.Node, want map[string]float64, tol float64) bool {
		if !o.Check(len(mat) == len(names) && len(tips) == len(names), "matrix_size", fmt.Sprintf("%s: %d rows, %d tips, tree has %d", what, len(mat), len(tips), len(names)), text) {
			return false
		}
		for i, tp := range tips {
			if !o.Check(tp.Name() == names[i], "matrix_order", fmt.Sprintf("%s: row %d is %q, name order says %q", what, i, tp.Name(), names[i]), text) {
				return false
			}
		}
		for i := range names {
			if !o.Check(mat[i][i] == 0, "matrix_diagonal", fmt.Sprintf("%s: d(%s,%s)=%v", what, names[i], names[i], mat[i][i]), text) {
				return false
			}
			for j := i + 1; j < len(names); j++ {
				w := want[names[i]+"\x00"+names[j]]
				o.Asserts += 2
				if math.Abs(mat[i][j]-mat[j][i]) > 1e-9*math.Max(math.Abs(mat[i][j]), math.Abs(mat[j][i]))+tol { // sums are accumulated from either end
					o.Fail("matrix_asymmetric", fmt.Sprintf("%s: d(%s,%s)=%v but d(%s,%s)=%v", what, names[i], names[j], mat[i][j], names[j], names[i], mat[j][i]), text)
					return false
				}
				if math.Abs(mat[i][j]-w) > 1e-9*math.Max(math.Abs(w), math.Abs(mat[i][j]))+tol {
					o.Fail("matrix_entry", fmt.Sprintf("%s: d(%s,%s)=%v, path sum is %v", what, names[i], names[j], mat[i][j], w), text, "metric", strings.Fields(what)[0])
					return false
				}
			}
		}
		return true
	}
	wLen := func(nd *ref.Node) float64 { return nd.Len.Z() }
	wOne := func(nd *ref.Node) float64 { return 1 }
	{
		mat, tips := mustParse(text).ToDistanceMatrix(tree.DISTANCE_METRIC_BRLEN)
		checkMatrix("brlen matrix", mat, tips, pathSum(bm, wLen), 1e-12*scale)
		// a tree object with a past: indexed while one tip had another name (its rank in name order has changed since)
		mat, tips = usedObject(r, text).ToDistanceMatrix(tree.DISTANCE_METRIC_BRLEN)
		checkMatrix("brlen matrix (previously indexed and renamed object)", mat, tips, pathSum(bm, wLen), 1e-12*scale)
		o.Ev("ToDistanceMatrix_used_object", 1)
		mat, tips = mustParse(text).ToDistanceMatrix(tree.DISTANCE_METRIC_NONE)
		checkMatrix("none matrix", mat, tips, pathSum(bm, wOne), 0)
		o.Ev("ToDistanceMatrix", 2)
		// boot: estimate the constant used for an absent support from two sibling tips
		mat, tips = mustParse(text).ToDistanceMatrix(tree.DISTANCE_METRIC_BOOTS)
		if len(mat) == len(names) && len(names) >= 2 {
			cst := math.NaN()
			for _, nd := range allNodes(bm) {
				var tk []string
				for _, ch := range nd.Children {
					if ch.IsTip() && !ch.Sup.Has {
						tk = append(tk, ch.Name)
					}
				}
				if len(tk) >= 2 {
					i, j := sort.SearchStrings(names, tk[0]), sort.SearchStrings(names, tk[1])
					cst = mat[i][j] / 2
					break
				}
			}
			if !math.IsNaN(cst) {
				wBoot := func(nd *ref.Node) float64 {
					if nd.Sup.Has {
						return nd.Sup.V
					}
					return cst
				}
				sumSup := 0.0
				for _, nd := range allNodes(bm) {
					sumSup += math.Abs(wBoot(nd))
				}
				checkMatrix("boot matrix", mat, tips, pathSum(bm, wBoot), 1e-12*sumSup)
				o.Ev("ToDistanceMatrix", 1)
			}
		}
	}
	// ---- average ---------------------------------------------------------------------------
	{
		k := 1 + r.Intn(6)
		if idx%20 == 9 && n <= 16 {
			k = gen.Pick(r, 100, 101, 150, 255, 256, 257, 300) // many small trees: every tree has the same weight in the mean
		}
		o.AddSet("list:average_over", fmt.Sprint(k))
		texts := []string{text}
		for i := 1; i < k; i++ {
			m2 := gen.Tree(r, gen.Opts{N: n, Shape: "random", RootDeg: gen.Pick(r, 2, 3), MultiP: 0.2, Lens: lens, LenCls: "len"})
			p := r.Perm(n)
			for j, tp := range modelTips(m2) {
				tp.Name = names[p[j]]
			}
			texts = append(texts, m2.Newick())
		}
		want := map[string]float64{}
		for _, s := range texts {
			for kk, v := range pathSum(modelOf(mustParse(s)), wLen) {
				want[kk] += v
			}
		}
		sc := 0.0
		for kk := range want {
			want[kk] /= float64(k)
			sc = math.Max(sc, want[kk])
		}
		// the identifiers the trees carry are whatever the caller gave them (0..n-1 from a reader; all 0, every other
		// one, starting at 1 from other sources): the mean is over the trees received
		idOf := []func(i int) int{func(i int) int { return i }, func(i int) int { return 0 }, func(i int) int { return 2 * i }, func(i int) int { return i + 1 }}[r.Intn(4)]
		ach := make(chan tree.Trees, len(texts))
		for i, s := range texts {
			ach <- tree.Trees{Tree: mustParse(s), Id: idOf(i)}
		}
		close(ach)
		mat, tips, err := tree.AvgDistanceMatrix(tree.DISTANCE_METRIC_BRLEN, ach)
		o.Ev("AvgDistanceMatrix", 1)
		if o.Check(err == nil, "avg_error", fmt.Sprint(err), strings.Join(texts, "\n")) {
			checkMatrix(fmt.Sprintf("average matrix over %d trees", k), mat, tips, want, 1e-12*sc*float64(n))
		}
	}
	// ---- cut --------------------------------------------------------------------------------
	var lv []float64
	absent := false
	for _, nd := range allNodes(bm)[1:] {
		if nd.Len.Has {
			lv = append(lv, nd.Len.V)
		} else {
			absent = true
		}
	}
	th := []float64{1e9, 1e-9}
	if !absent {
		th = append(th, 0, -0.5)
	}
	for _, j := range r.Perm(len(lv))[:min(3, len(lv))] {
		th = append(th, lv[j], ulp(lv[j], true), ulp(lv[j], false))
	}
	showBags := func(b [][]string) string {
		var p []string
		for _, g := range b {
			p = append(p, "{"+short(g)+"}")
		}
		return strings.Join(p, " ")
	}
	for _, tcut := range th {
		if absent && tcut <= 0 {
			continue
		}
		want := bm.Components(func(l ref.Num) bool { return l.Has && l.V >= tcut })
		bags, err := mustParse(text).CutEdgesMaxLength(tcut)
		o.Ev("CutEdgesMaxLength", 1)
		what := fmt.Sprintf("CutEdgesMaxLength(%v)", tcut)
		if !o.Check(err == nil, "cut_error", what+": "+fmt.Sprint(err), text) {
			continue
		}
		var got [][]string
		seen := map[string]int{}
		for _, b := range bags {
			var g []string
			for _, tp := range b.Tips() {
				g = append(g, tp.Name())
				seen[tp.Name()]++
			}
			sort.Strings(g)
			if len(g) > 0 {
				got = append(got, g)
			}
		}
		sort.Slice(got, func(i, j int) bool { return got[i][0] < got[j][0] })
		okOnce := len(seen) == len(names)
		for _, v := range seen {
			okOnce = okOnce && v == 1
		}
		o.Check(okOnce, "cut_partition", fmt.Sprintf("%s: %d distinct tips in the bags for %d tips, or a tip in two bags", what, len(seen), len(names)), text)
		same := len(got) == len(want)
		for i := 0; same && i < len(got); i++ {
			same = sameStrings(got[i], want[i])
		}
		o.Check(same, "cut_groups", fmt.Sprintf("%s: bags %s, components of branches shorter than the threshold: %s", what, showBags(got), showBags(want)), text)
		if len(want) >= 2 && len(want) < len(names) && len(names) >= 4 {
			o.Nontrivial = true
		}
	}
	// ---- commands ---------------------------------------------------------------------------
	if idx%8 == 7 && opts14Simple(names) {
		_ = tmpFile(c, "t.nw", text+"\n")
		inArgs, inStdin, inMode := presentTrees(c, r, "t-alt", []string{text}, plainNewick(text))
		o.Ev("cli_input:"+inMode, 1)
		res, outMode := runCLIOut(c, r, inStdin, append(append([]string{"matrix"}, inArgs...), "-m", "brlen")...)
		o.Ev("cli_output:"+outMode, 1)
		o.Ev("cli", 1)
		if o.Check(res.Exit == 0 && !res.Panic, "cli_matrix_failed", res.brief(), text) {
			lines := strings.Split(strings.TrimRight(res.Stdout, "\n"), "\n")
			want := pathSum(bm, wLen)
			ok := len(lines) == len(names)+1 && lines[0] == strconv.Itoa(len(names))
			if o.Check(ok, "cli_matrix_shape", fmt.Sprintf("%d lines for %d tips", len(lines), len(names)), text) {
			rows:
				for i, ln := range lines[1:] {
					f := strings.Split(ln, "\t")
					if !o.Check(len(f) == len(names)+1 && f[0] == names[i], "cli_matrix_row", fmt.Sprintf("row %d: %q", i, Trunc(ln, 100)), text) {
						break
					}
					for j := range names {
						v, err := strconv.ParseFloat(f[1+j], 64)
						w := 0.0
						if i != j {
							a, b := names[i], names[j]
							if a > b {
								a, b = b, a
							}
							w = want[a+"\x00"+b]
						}
						if !o.Check(err == nil && math.Abs(v-w) <= 1e-9*math.Abs(w)+1e-11, "cli_matrix_entry", fmt.Sprintf("gotree matrix d(%s,%s)=%s, path sum %v", names[i], names[j], f[1+j], w), text) {
							break rows
						}
					}
				}
			}
		}
		// several trees in one file, without --avg: one matrix per tree, in order
		if plainNewick(text) && len(names) >= 3 {
			t2 := mustParse(text)
			rand.Seed(r.Int63())
			t2.ShuffleTips()
			for _, e := range t2.Edges() {
				e.SetLength(float64(1+r.Intn(8)) / 4)
			}
			m2 := modelOf(t2)
			fm := tmpFile(c, "t2.nw", t2.Newick()+"\n"+text+"\n"+t2.Newick()+"\n")
			res := runCLI(c, "", "matrix", "-i", fm, "-m", "brlen")
			o.Ev("cli_multi", 1)
			if o.Check(res.Exit == 0 && !res.Panic, "cli_matrix_failed", "three trees: "+res.brief(), text) {
				lines := strings.Split(strings.TrimRight(res.Stdout, "\n"), "\n")
				n := len(names)
				if o.Check(len(lines) == 3*(n+1), "cli_matrix_shape", fmt.Sprintf("gotree matrix on 3 trees of %d tips printed %d lines, expected %d", n, len(lines), 3*(n+1)), text, "multi", "true") {
					wants := []map[string]float64{pathSum(m2, wLen), pathSum(bm, wLen), pathSum(m2, wLen)}
				blocks:
					for b := 0; b < 3; b++ {
						blk := lines[b*(n+1) : (b+1)*(n+1)]
						for i, ln := range blk[1:] {
							f := strings.Split(ln, "\t")
							if !o.Check(len(f) == n+1 && f[0] == names[i], "cli_matrix_row", fmt.Sprintf("matrix %d row %d: %q", b, i, Trunc(ln, 200)), text, "multi", "true") {
								break blocks
							}
							for j := 0; j < n; j++ {
								if i == j {
									continue
								}
								v, err := strconv.ParseFloat(f[1+j], 64)
								a, bb := names[i], names[j]
								if a > bb {
									a, bb = bb, a
								}
								w := wants[b][a+"\x00"+bb]
								if !o.Check(err == nil && math.Abs(v-w) <= 1e-9*math.Abs(w)+1e-11, "cli_matrix_entry", fmt.Sprintf("gotree matrix, tree %d of 3: d(%s,%s)=%s, path sum is %v", b, names[i], names[j], f[1+j], w), text, "multi", "true") {
									break blocks
								}
							}
						}
					}
				}
			}
		}
		if len(lv) > 0 {
			tcut := lv[r.Intn(len(lv))]
			if !(absent && tcut <= 0) {
				res := runCLI(c, inStdin, append(append([]string{"brlen", "cut"}, inArgs...), "-l", strconv.FormatFloat(tcut, 'g', -1, 64))...)
				if o.Check(res.Exit == 0 && !res.Panic, "cli_cut_failed", res.brief(), text) {
					want := bm.Components(func(l ref.Num) bool { return l.Has && l.V >= tcut })
					var got [][]string
					for _, ln := range strings.Split(strings.TrimSpace(res.Stdout), "\n") {
						f := strings.Split(ln, "\t")
						if len(f) == 3 {
							g := strings.Split(f[2], ",")
							sort.Strings(g)
							got = append(got, g)
						}
					}
					sort.Slice(got, func(i, j int) bool { return got[i][0] < got[j][0] })
					same := len(got) == len(want)
					for i := 0; same && i < len(got); i++ {
						same = sameStrings(got[i], want[i])
					}
					o.Check(same, "cli_cut_groups", fmt.Sprintf("gotree brlen cut -l %v: %s, expected %s", tcut, showBags(got), showBags(want)), text)
				}
			}
		}
	}
}

// names usable on a tab/comma separated command output
func opts14Simple(names []string) bool {
	for _, n := range names {
		if strings.ContainsAny(n, "\t, ") {
			return false
		}
	}
	return true
}
