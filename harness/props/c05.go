package props

import (
	"fmt"
	"math"
	"math/rand"
	"sort"
	"strings"

	"github.com/evolbioinfo/gotree/tree"

	"verif/gen"
	"verif/ref"
)

func init() {
	Register(&Prop{
		ID:       "C05",
		NeedsCLI: true,
		Chunk:    40,
		Count: func(c *Ctx) int {
			if c.Thorough() {
				return 40000
			}
			return 1600
		},
		Rule: "case = one generated tree with lengths; sub-executions: Reroot at every inner node (sampled above 60 tips), RerootOutGroup over clades/complements/non-clades/absent names (alone: nothing may be removed) x strict x remove, RerootMidPoint, UnRoot, the reroot / unroot / rotate commands on files of several trees (outgroup given as arguments or in a tip file of any accepted layout), RotateInternalNodes, SortNeighborsByTips; non-trivial = tree has >= 2 inner branches and at least one outgroup rooting on a split side succeeded; distinct by start text",
		Assumptions: []string{
			"lengths in [1e-6,1e3] plus zeros and exact ties; path sums compared to 1e-9 relative (re-association), halves of the cut branch bitwise",
			"negative branch lengths are not generated here: 'cut into two equal halves' and 'halfway along a longest path' are stated for lengths >= 0 (merging of branches in series with negative lengths is covered by C06 and C15)",
			"supports compared exactly for splits carried by a single branch before and after (cut or merged branches excluded)",
			"'several possible branches (multifurcated node)' and errors on non-split outgroups are accepted outcomes",
		},
		Run: runC05,
	})
}

func allClades(m *ref.Tree) [][]string {
	var out [][]string
	var rec func(n *ref.Node, root bool) []string
	rec = func(n *ref.Node, root bool) []string {
		var names []string
		if n.IsTip() {
			names = []string{n.Name}
		}
		for _, c := range n.Children {
			names = append(names, rec(c, false)...)
		}
		if !root {
			out = append(out, sortedCopy(names))
		}
		return names
	}
	rec(m.Root, true)
	return out
}

func complement(all []string, side []string) []string {
	in := setOf(side)
	var o []string
	for _, a := range all {
		if !in[a] {
			o = append(o, a)
		}
	}
	return o
}

func runC05(c *Ctx, idx int, o *Obs) {
	r := c.Rng("C05", idx)
	maxTips := 60
	if c.Thorough() && idx%8 == 0 {
		maxTips = 300
	}
	n := gen.Size(r, 3, maxTips)
	lens := gen.Pick(r, "all", "all", "all", "all", "mixed", "none")
	opts := gen.Opts{
		N: n, Shape: gen.Pick(r, "random", "random", "random", "caterpillar", "balanced", "star", "broom"),
		RootDeg: gen.Pick(r, 0, 2, 2, 3, 3, 5), MultiP: gen.Pick(r, 0.0, 0.2, 0.5),
		Lens: lens, LenCls: gen.Pick(r, "len", "len", "tie"),
		SupP: gen.Pick(r, 0.0, 0.5, 1.0), SupCls: gen.Pick(r, "unit", "int"),
		InnerNameP: gen.Pick(r, 0.0, 0.0, 0.3), Names: gen.Pick(r, "simple", "simple", "hostile"),
	}
	if idx%50 == 7 {
		opts.LenCls = "zero"
	}
	R := gen.Tree(r, opts)
	if opts.LenCls == "zero" {
		for _, nd := range allNodes(R) {
			if nd != R.Root {
				nd.Len = ref.N(0)
			}
		}
	}
	if lens == "all" && idx%5 == 3 {
		// zero-length terminal branches (identical sequences): the ends of the longest paths sit on branches of length 0
		opts.LenCls += "+zerotips"
		tips := modelTips(R)
		if idx%10 == 3 {
			for _, tp := range tips {
				if r.Intn(2) == 0 {
					tp.Len = ref.N(0)
				}
			}
		} else {
			// put the two ends of a longest path on zero-length branches (and keep the path the longest one)
			d := R.Dist(ref.MLen)
			bestK, best := "", -1.0
			for k, v := range d {
				if v > best || (v == best && k < bestK) {
					bestK, best = k, v
				}
			}
			ends := strings.SplitN(bestK, "\x00", 2)
			for _, tp := range tips {
				for _, e := range ends {
					if tp.Name == e {
						tp.Len = ref.N(0)
					}
				}
			}
		}
	}
	if lens == "all" && idx%10 == 8 {
		// the apex of the longest path carries zero-length tips: (clade:long, z1:0, z2:0 ...)
		opts.LenCls += "+zeroapex"
		old := R.Root
		old.Len = ref.N(totalLen(R) + 1)
		old.Sup, old.PVal, old.Name = ref.Num{}, ref.Num{}, ""
		kids := []*ref.Node{old}
		for z := 0; z < 1+r.Intn(3); z++ {
			kids = append(kids, &ref.Node{Name: fmt.Sprintf("zerotip%d", z), Len: ref.N(0)})
		}
		r.Shuffle(len(kids), func(i, j int) { kids[i], kids[j] = kids[j], kids[i] })
		R = &ref.Tree{Root: &ref.Node{Children: kids}}
	}
	start := R.Newick()
	o.Sample = Trunc(start, 400)
	o.SetFP(start)
	o.Class = fmt.Sprintf("%s/root%d/len-%s-%s", opts.Shape, len(R.Root.Children), lens, opts.LenCls)
	before := reduce(modelOf(mustParse(start)), true)
	all := before.tx.Names
	innerBranches := 0
	for _, s := range before.splits {
		if !s.Trivial {
			innerBranches++
		}
	}
	rootedStart := len(R.Root.Children) == 2

	same := func(kind, what string, t *tree.Tree, sups bool) *reduction {
		after := reduce(modelOf(t), true)
		d := sameTree(before, after, sups)
		o.Check(d == "", kind, what+": "+d, start+" => "+Trunc(t.Newick(), 1500), "op", kind)
		if d == "" {
			checkStructure(o, t, what+" on "+Trunc(start, 300))
		}
		return after
	}

	// ---- Reroot at inner nodes ------------------------------------------------------------
	{
		t0 := mustParse(start)
		nIn := len(innerNodes(t0))
		ks := r.Perm(nIn)
		if nIn > 60 {
			ks = ks[:60]
		}
		for _, k := range ks {
			t := mustParse(start)
			nd := innerNodes(t)[k]
			err := t.Reroot(nd)
			o.Ev("Reroot", 1)
			if !o.Check(err == nil, "reroot_error", fmt.Sprintf("Reroot at inner node #%d: %v", k, err), start) {
				continue
			}
			o.Check(t.Root() == nd, "reroot_root", "Root() is not the requested node", start)
			same("reroot", fmt.Sprintf("Reroot(inner node #%d)", k), t, true)
		}
		// tips are refused
		t := mustParse(start)
		err := t.Reroot(t.Tips()[0])
		o.Check(err != nil, "reroot_tip_accepted", "Reroot on a tip reported success", start)
	}

	// ---- UnRoot, rotate, sort ------------------------------------------------------------
	{
		t := mustParse(start)
		t.UnRoot()
		o.Ev("UnRoot", 1)
		a := same("unroot", "UnRoot()", t, true)
		if n >= 3 {
			o.Check(len(a.m.Root.Children) >= 3 || !rootedStart && len(a.m.Root.Children) == len(R.Root.Children),
				"unroot_still_rooted", fmt.Sprintf("root has %d children after UnRoot", len(a.m.Root.Children)), start)
		}
		t = mustParse(start)
		rand.Seed(r.Int63())
		t.RotateInternalNodes()
		o.Ev("Rotate", 1)
		same("rotate", "RotateInternalNodes()", t, true)
		t = mustParse(start)
		t.SortNeighborsByTips()
		o.Ev("Sort", 1)
		same("sort", "SortNeighborsByTips()", t, true)
	}

	// ---- Outgroups ------------------------------------------------------------------------
	type ogCase struct {
		names []string
		kind  string
	}
	var ogs []ogCase
	clades := allClades(before.m)
	pick := r.Perm(len(clades))
	lim := 12
	if len(clades) <= 24 {
		lim = len(clades)
	}
	for _, i := range pick[:min(lim, len(pick))] {
		ogs = append(ogs, ogCase{clades[i], "clade"})
		if cp := complement(all, clades[i]); len(cp) > 0 {
			ogs = append(ogs, ogCase{cp, "complement"})
		}
	}
	for k := 0; k < 4; k++ {
		ogs = append(ogs, ogCase{randSubset(r, all, 1+r.Intn(len(all))), "random"})
	}
	ogs = append(ogs, ogCase{[]string{"absent_1", "absent_2"}, "absent"})
	ogs = append(ogs, ogCase{append([]string{}, all...), "alltips"})
	if len(clades) > 0 {
		ogs = append(ogs, ogCase{append([]string{"absent_1"}, clades[pick[0]]...), "clade+absent"})
	}
	succeeded := 0
	for _, og := range ogs {
		present := sortedCopy(og.names)
		{
			in := setOf(all)
			var p []string
			for _, x := range present {
				if in[x] {
					p = append(p, x)
				}
			}
			present = p
		}
		var key ref.Key
		var S *ref.Split
		isSide := false
		if len(present) > 0 && len(present) < len(all) {
			key, _ = before.tx.KeyOf(present)
			S, isSide = before.splits[key]
		}
		for _, remove := range []bool{false, true} {
			for _, strict := range []bool{false, true} {
				if remove && len(all)-len(present) < 3 {
					continue
				}
				t := mustParse(start)
				err := t.RerootOutGroup(remove, strict, og.names...)
				o.Ev("RerootOutGroup:"+og.kind, 1)
				what := fmt.Sprintf("RerootOutGroup(remove=%v,strict=%v,%s[%s])", remove, strict, og.kind, short(og.names))
				inp := start + " ; " + what
				if err != nil {
					o.Ev("outgroup_error", 1)
					continue
				}
				if !isSide && strict && len(present) > 0 && len(present) < len(all) {
					o.Check(false, "outgroup_strict_accepted", what+": non-monophyletic outgroup accepted in strict mode", inp)
					continue
				}
				if len(present) == 0 || len(present) == len(all) {
					// nothing sensible can be rooted; the statement makes no claim beyond "no damage"
					if !remove {
						same("outgroup_degenerate", what, t, false)
					} else if len(present) == 0 {
						// no listed name is a tip of the tree: nothing may be removed
						o.Check(sameStrings(modelOf(t).SortedTips(), all), "outgroup_removed_other_tip",
							fmt.Sprintf("%s: no outgroup name is in the tree, but its tips went from %d to %d", what, len(all), len(modelOf(t).Tips())), inp+" => "+Trunc(t.Newick(), 1500))
						same("outgroup_degenerate", what, t, false)
					}
					continue
				}
				am := modelOf(t)
				if remove {
					keep := setOf(complement(all, present))
					if isSide {
						want := reduce(before.m.Restrict(keep), true)
						got := reduce(am, true)
						d := sameTree(want, got, false)
						o.Check(d == "", "outgroup_remove", what+": result is not the tree induced on the ingroup: "+d, inp+" => "+Trunc(t.Newick(), 1500))
						checkStructure(o, t, what)
						succeeded++
					} else {
						// non-monophyletic, non strict: the outgroup tips must be gone, ingroup-only tips remain
						got := setOf(am.Tips())
						bad := ""
						for _, x := range present {
							if got[x] {
								bad = x
							}
						}
						o.Check(bad == "", "outgroup_remove_left", what+": outgroup tip still present: "+bad, inp)
					}
					continue
				}
				after := same("outgroup", what, t, true)
				root := after.m.Root
				if !o.Check(len(root.Children) == 2, "outgroup_root_degree", fmt.Sprintf("%s: root has %d children", what, len(root.Children)), inp) {
					continue
				}
				c0, c1 := nodeTipNames(root.Children[0]), nodeTipNames(root.Children[1])
				if isSide {
					succeeded++
					m0, m1 := sameStrings(c0, present), sameStrings(c1, present)
					o.Check(m0 != m1, "outgroup_not_root_clade", what+": outgroup is not exactly one of the two clades below the root", inp+" => "+Trunc(t.Newick(), 1500))
					// halves
					var want ref.Num
					if S.HasLen && S.Len > 0 {
						want = ref.N(S.Len / 2)
					}
					for i, ch := range root.Children {
						o.Check(ch.Len.Eq(want), "outgroup_halves", fmt.Sprintf("%s: root branch %d has length %v, expected half of %v = %v", what, i, ch.Len, S.Len, want), inp+" => "+Trunc(t.Newick(), 1500))
					}
				} else {
					in0, in1 := setOf(c0), setOf(c1)
					all0, all1 := true, true
					for _, x := range present {
						all0 = all0 && in0[x]
						all1 = all1 && in1[x]
					}
					o.Check(all0 || all1, "outgroup_split_across_root", what+": non-monophyletic outgroup is spread over both root clades", inp+" => "+Trunc(t.Newick(), 1500))
				}
			}
		}
	}
	o.Ev("outgroup_success_on_split_side", succeeded)

	// ---- Midpoint ------------------------------------------------------------------------
	{
		t := mustParse(start)
		err := t.RerootMidPoint()
		o.Ev("RerootMidPoint", 1)
		allLens := lens == "all"
		if err == nil {
			after := same("midpoint", "RerootMidPoint()", t, true)
			if allLens {
				D := 0.0
				for _, v := range before.dist {
					if v > D {
						D = v
					}
				}
				root := after.m.Root
				if o.Check(len(root.Children) == 2, "midpoint_root_degree", fmt.Sprintf("root has %d children after midpoint rooting", len(root.Children)), start) {
					rd := after.m.RootDist()
					tol := 1e-9*D + 1e-12*before.scale
					half := func(nd *ref.Node) bool {
						for _, x := range nodeTipNames(nd) {
							if math.Abs(rd[x]-D/2) <= tol {
								return true
							}
						}
						return false
					}
					o.Check(half(root.Children[0]) && half(root.Children[1]), "midpoint_not_halfway",
						fmt.Sprintf("no pair of tips at distance D/2=%v from the root on both sides (D=%v)", D/2, D), start+" => "+Trunc(t.Newick(), 1500))
					o.Ev("midpoint_checked", 1)
				}
			}
		} else {
			o.Ev("midpoint_error", 1)
			D := 0.0
			for _, v := range before.dist {
				if v > D {
					D = v
				}
			}
			if allLens && D > 0 {
				o.Check(false, "midpoint_refused", "RerootMidPoint refused a tree with all lengths present and a positive diameter: "+err.Error(), start)
			}
		}
	}
	// ---- the commands, on a file of several trees (each output tree against ITS input tree) --------
	if idx%8 == 5 && lens == "all" && opts.Names == "simple" && strings.Count(start, ";") == 1 {
		texts := []string{start}
		for j := 0; j < 1+r.Intn(3); j++ {
			m := gen.Tree(r, gen.Opts{N: gen.Size(r, 4, 30), Shape: gen.Pick(r, "random", "caterpillar", "balanced"), RootDeg: gen.Pick(r, 2, 3, 4), MultiP: gen.Pick(r, 0.0, 0.3),
				Lens: "all", LenCls: gen.Pick(r, "len", "tie"), SupP: 0.5, SupCls: "unit", Names: "simple"})
			texts = append(texts, m.Newick())
		}
		var reds []*reduction
		for _, tx := range texts {
			reds = append(reds, reduce(modelOf(mustParse(tx)), true))
		}
		f := tmpFile(c, "c05multi.nw", strings.Join(texts, "\n")+"\n")
		inp := strings.Join(texts, "\n")
		// an outgroup made of tips of the first tree (absent names are ignored in the other trees)
		og := allClades(before.m)
		var ogNames []string
		if len(og) > 0 {
			ogNames = og[r.Intn(len(og))]
		}
		cmds := [][]string{{"unroot", "-i", f}, {"rotate", "sort", "-i", f}, {"rotate", "rand", "-i", f, "--seed", "7"}}
		positive := true // midpoint rooting is only defined when every tree has a positive diameter
		for _, rd := range reds {
			D := 0.0
			for _, v := range rd.dist {
				if v > D {
					D = v
				}
			}
			positive = positive && D > 0
		}
		if positive {
			cmds = append(cmds, []string{"reroot", "midpoint", "-i", f})
		}
		if len(ogNames) > 0 && len(ogNames) < len(all) {
			cmds = append(cmds, append([]string{"reroot", "outgroup", "-i", f}, ogNames...))
		}
		inArgs, inStdin, inMode := presentTrees(c, r, "c05multi-alt", texts, false)
		o.Ev("cli_input:"+inMode, 1)
		for _, cl0 := range cmds {
			var cl []string
			for i := 0; i < len(cl0); i++ {
				if cl0[i] == "-i" && i+1 < len(cl0) && cl0[i+1] == f {
					cl = append(cl, inArgs...)
					i++
					continue
				}
				cl = append(cl, cl0[i])
			}
			if cl0[1] == "outgroup" && inMode == "stdin" {
				cl = cl0 // positional tip names after the options: keep the file form
			}
			res, outMode := runCLIOut(c, r, inStdin, cl...)
			o.Ev("cli_output:"+outMode, 1)
			o.Ev("cli:"+cl0[0]+" "+cl0[1], 1)
			what := "gotree " + cl0[0] + " " + cl0[1] + " (input: " + inMode + ") on a file of " + fmt.Sprint(len(texts)) + " trees"
			if cl0[1] == "outgroup" {
				// the outgroup only exists in the first tree: the command stops at the second one; judge the first line
				if res.Panic || res.Signal {
					o.Fail("cli_crash", what+": "+res.brief(), inp)
				}
				lines := strings.Split(strings.TrimSpace(res.Stdout), "\n")
				if len(lines) >= 1 && lines[0] != "" {
					if ct, err := parseNewick(lines[0]); o.Check(err == nil, "cli_output_unreadable", what+": "+fmt.Sprint(err), inp) {
						d := sameTree(reds[0], reduce(modelOf(ct), true), false)
						o.Check(d == "", "cli_outgroup", what+", tree 0: "+d, inp+" => "+Trunc(lines[0], 800), "op", "cli")
					}
				}
				continue
			}
			if !o.Check(res.Exit == 0 && !res.Panic, "cli_failed", what+": "+res.brief(), inp) {
				continue
			}
			lines := strings.Split(strings.TrimSpace(res.Stdout), "\n")
			if !o.Check(len(lines) == len(texts), "cli_tree_count", fmt.Sprintf("%s: %d output trees", what, len(lines)), inp) {
				continue
			}
			for i, ln := range lines {
				ct, err := parseNewick(ln)
				if !o.Check(err == nil, "cli_output_unreadable", fmt.Sprintf("%s, tree %d: %v", what, i, err), inp) {
					break
				}
				after := reduce(modelOf(ct), true)
				d := sameTree(reds[i], after, false)
				if !o.Check(d == "", "cli_"+cl0[1], fmt.Sprintf("%s, tree %d: %s", what, i, d), inp+" => "+Trunc(ln, 800), "op", "cli") {
					break
				}
				switch cl0[1] {
				case "midpoint":
					D := 0.0
					for _, v := range reds[i].dist {
						if v > D {
							D = v
						}
					}
					if D > 0 && o.Check(len(after.m.Root.Children) == 2, "midpoint_root_degree", fmt.Sprintf("%s, tree %d: root has %d children", what, i, len(after.m.Root.Children)), inp) {
						rd := after.m.RootDist()
						far := 0.0
						for _, v := range rd {
							if v > far {
								far = v
							}
						}
						o.Check(math.Abs(far-D/2) <= 1e-9*D+1e-12*reds[i].scale, "midpoint_not_halfway",
							fmt.Sprintf("%s, tree %d: the farthest tip is at %v from the root, half of the longest path is %v", what, i, far, D/2), inp+" => "+Trunc(ln, 800), "op", "cli")
					}
				case "unroot":
					o.Check(len(after.m.Root.Children) >= 3 || len(after.tx.Names) < 3, "cli_unroot_degree", fmt.Sprintf("%s, tree %d: root still has %d children", what, i, len(after.m.Root.Children)), inp)
				}
			}
		}
	}
	// ---- gotree reroot outgroup on a file whose trees carry different subsets of the tips ----------
	if idx%8 == 1 && lens == "all" && opts.Names == "simple" && strings.Count(start, ";") == 1 && len(all) >= 8 {
		cl := allClades(before.m)
		var og []string
		for _, i := range r.Perm(len(cl)) {
			if len(cl[i]) >= 3 && len(cl[i]) <= len(all)-4 {
				og = cl[i]
				break
			}
		}
		if og != nil {
			ogSet := setOf(og)
			var texts []string
			var models []*ref.Tree
			for j := 0; j < 3+r.Intn(2); j++ {
				keep := map[string]bool{}
				nOg, nOther := 0, 0
				for _, nm := range all {
					drop := r.Intn(3) == 0
					if j == 0 && nm == og[0] {
						drop = true // the first listed outgroup tip is absent from the first tree
					}
					if !drop {
						keep[nm] = true
						if ogSet[nm] {
							nOg++
						} else {
							nOther++
						}
					}
				}
				if nOg < 1 || nOther < 2 {
					continue
				}
				m := before.m.Restrict(keep)
				models = append(models, m)
				texts = append(texts, m.Newick())
			}
			if len(texts) >= 2 {
				f := tmpFile(c, "c05og.nw", strings.Join(texts, "\n")+"\n")
				inp := strings.Join(texts, "\n") + "\noutgroup: " + strings.Join(og, ",")
				ogArgs := og
				if r.Intn(2) == 0 && !strings.ContainsAny(strings.Join(og, ""), ", \t\r\n") {
					// the outgroup in a tip file, in one of the layouts the option accepts
					content, kind := tipFileContent(r, og)
					ogArgs = []string{"-l", tmpFile(c, "c05og.txt", content)}
					o.Ev("cli_outgroup_file:"+kind, 1)
					inp += "\noutgroup file (" + kind + "): " + Trunc(content, 300)
				}
				res, _ := runCLIOut(c, r, "", append([]string{"reroot", "outgroup", "-i", f}, ogArgs...)...)
				o.Ev("cli:reroot outgroup multi", 1)
				what := "gotree reroot outgroup on a file of " + fmt.Sprint(len(texts)) + " trees with different tip sets"
				if o.Check(res.Exit == 0 && !res.Panic, "cli_failed", what+": "+res.brief(), inp) {
					lines := strings.Split(strings.TrimSpace(res.Stdout), "\n")
					if o.Check(len(lines) == len(texts), "cli_tree_count", fmt.Sprintf("%s: %d output trees", what, len(lines)), inp) {
						for i, ln := range lines {
							ct, err := parseNewick(ln)
							if !o.Check(err == nil, "cli_output_unreadable", fmt.Sprintf("%s, tree %d: %v", what, i, err), inp) {
								break
							}
							want := reduce(models[i], true)
							after := reduce(modelOf(ct), true)
							if d := sameTree(want, after, false); !o.Check(d == "", "cli_outgroup", fmt.Sprintf("%s, tree %d: %s", what, i, d), inp+" => "+Trunc(ln, 800), "op", "cli") {
								break
							}
							// the outgroup tips present in this tree are exactly one of the two clades below the root
							var present []string
							for _, nm := range want.tx.Names {
								if ogSet[nm] {
									present = append(present, nm)
								}
							}
							okClade := false
							if len(after.m.Root.Children) == 2 {
								for _, ch := range after.m.Root.Children {
									okClade = okClade || sameStrings(nodeTipNames(ch), present)
								}
							}
							if !o.Check(okClade, "cli_outgroup_not_root_clade", fmt.Sprintf("%s, tree %d: the outgroup tips of this tree {%s} are not one of the two root clades", what, i, short(present)), inp+" => "+Trunc(ln, 800), "op", "cli") {
								break
							}
							a, b := after.m.Root.Children[0].Len, after.m.Root.Children[1].Len
							o.Check(a.Has == b.Has && math.Float64bits(a.V) == math.Float64bits(b.V), "cli_outgroup_halves", fmt.Sprintf("%s, tree %d: root branches %v and %v are not two equal halves", what, i, a, b), inp+" => "+Trunc(ln, 800), "op", "cli")
						}
					}
				}
			}
		}
	}
	o.Nontrivial = innerBranches >= 2 && succeeded > 0
	_ = strings.Join
	_ = sort.Strings
}

func allNodes(t *ref.Tree) []*ref.Node {
	var o []*ref.Node
	var rec func(n *ref.Node)
	rec = func(n *ref.Node) {
		o = append(o, n)
		for _, c := range n.Children {
			rec(c)
		}
	}
	rec(t.Root)
	return o
}

func min(a, b int) int {
	if a < b {
		return a
	}
	return b
}
