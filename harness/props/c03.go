package props

import (
	"fmt"
	"strings"

	"github.com/evolbioinfo/gotree/tree"

	"verif/gen"
	"verif/mon"
	"verif/ref"
)

func modelTips(t *ref.Tree) []*ref.Node {
	var o []*ref.Node
	var rec func(n *ref.Node)
	rec = func(n *ref.Node) {
		if n.IsTip() {
			o = append(o, n)
		}
		for _, c := range n.Children {
			rec(c)
		}
	}
	rec(t.Root)
	return o
}

func init() {
	Register(&Prop{
		ID:    "C03",
		Chunk: 40,
		Count: func(c *Ctx) int {
			if c.Thorough() {
				return 30000
			}
			return 1200
		},
		Rule: "case = random history of public editing operations (arguments drawn from the live tree) on a generated start tree; " +
			"the structure walker and the text-vs-structure monitor run after every successful step, and on the result of a successful edit that leaves fewer than 3 tips (pruning down to two tips included) before the history goes back; operations include in-place refreshes of the indexes, rearrangements kept and undone after re-rootings, decorations; " +
			"non-trivial = at least 5 successful steps of at least 4 different kinds; distinct by (start tree, op log)",
		Assumptions: []string{
			"only all-success histories are judged: after an operation that returned an error the history continues from a copy taken before it",
			"pruning (RemoveTips, RerootOutGroup with removal) is preceded by RemoveSingleNodes when re-rooting of a rooted tree may have left single-child nodes (quantifier of C03)",
			"start trees <= 200 tips quick / <= 1000 thorough; histories <= 25 / 40 steps",
		},
		Run: runC03,
	})
}

// checkStructure runs the walker and the Newick consistency monitor; returns false on violation.
func checkStructure(o *Obs, t *tree.Tree, ctx string) bool {
	w, ps := mon.Walk(t, true)
	o.Asserts += w.Asserts
	if len(ps) > 0 {
		for _, p := range ps {
			o.Fail("structure_"+p.Kind, p.Detail+" after "+ctx, ctx, "inv", p.Kind)
		}
		return false
	}
	// gotree's own checkers must agree with the walker (the walker is the oracle)
	o.Asserts += 2
	if !t.CheckTree() {
		o.Fail("checktree_disagrees", "CheckTree() is false on a structure the walker accepts, after "+ctx, ctx)
	}
	if err := t.CheckTreePostOrder(); err != nil {
		o.Fail("checktreepostorder_disagrees", err.Error()+" after "+ctx, ctx)
	}
	// Newick text describes exactly the walked structure
	m, err := mon.FromTree(t)
	if err != nil {
		o.Fail("structure_unreadable", err.Error(), ctx)
		return false
	}
	text := t.Newick()
	got, err := ref.ParseNewick(text)
	o.Asserts++
	if err != nil {
		o.Fail("text_unreadable", fmt.Sprintf("%v after %s", err, ctx), text)
		return false
	}
	want := mon.ExpectedText(m)
	o.Asserts++
	if d := ref.Diff(want.Root, got.Root, "root", true); d != "" {
		o.Fail("text_vs_structure", d+" after "+ctx, text)
		return false
	}
	return true
}

func runC03(c *Ctx, idx int, o *Obs) {
	r := c.Rng("C03", idx)
	maxTips, steps := 200, 25
	if c.Thorough() {
		maxTips, steps = 1000, 40
		if idx%10 != 0 {
			maxTips = 200
		}
	}
	n := gen.Size(r, 3, maxTips)
	if r.Intn(3) > 0 && n > 40 {
		n = gen.Size(r, 3, 40)
	}
	opts := gen.Opts{
		N: n, Shape: gen.Pick(r, "random", "random", "random", "caterpillar", "balanced", "star", "broom"),
		RootDeg: gen.Pick(r, 0, 2, 2, 3, 3, 5), MultiP: gen.Pick(r, 0.0, 0.2, 0.5),
		Lens: gen.Pick(r, "all", "all", "all", "mixed", "none"), LenCls: gen.Pick(r, "len", "tie", "dec"),
		SupP: gen.Pick(r, 0.0, 0.5, 1.0), SupCls: gen.Pick(r, "unit", "int"), PValP: gen.Pick(r, 0.0, 0.3),
		InnerNameP: gen.Pick(r, 0.0, 0.3), NodeComP: gen.Pick(r, 0.0, 0.3), EdgeComP: gen.Pick(r, 0.0, 0.3),
		// single-child inner nodes (several siblings, chains): what re-rooting a rooted tree leaves behind
		SingleP: gen.Pick(r, 0.0, 0.0, 0.0, 0.0, 0.15, 0.4),
	}
	R := gen.Tree(r, opts)
	start := R.Newick()
	var t *tree.Tree
	if r.Intn(2) == 0 {
		t = mon.Build(R)
	} else {
		var err error
		if t, err = parseNewick(start); err != nil {
			o.Inconclusive = "start tree rejected: " + err.Error()
			return
		}
	}
	o.Class = fmt.Sprintf("%s/root%d/len-%s", opts.Shape, len(R.Root.Children), opts.Lens)
	h := &hist{r: r, t: t}
	h.singles = hasSingles(t)
	h.onSmall = func(st *tree.Tree, d string) {
		o.Ev("edit_left_fewer_than_3_tips", 1)
		checkStructure(o, st, fmt.Sprintf("%s (fewer than 3 tips left); history: %s; start: %s", d, strings.Join(h.log, " ; "), Trunc(start, 1500)))
	}
	if !checkStructure(o, t, "start "+Trunc(start, 200)) {
		return
	}
	k := 5 + r.Intn(steps-4)
	// "sandwich" histories: a rearrangement is applied, the same tree object is re-rooted / re-ordered one to three
	// times, and only then is the rearrangement undone
	sandwich := idx%6 == 2 && !h.singles
	phase := 0
	between := 1 + r.Intn(3)
	kinds := map[string]bool{}
	succ := 0
	prev := "start"
	o.Sample = Trunc(start, 1500)
	for s := 0; s < k; s++ {
		o.Sample = Trunc(start, 1500) + " :: " + Trunc(strings.Join(h.log, " ; "), 2500) + " ; <next op crashed if this case panicked>"
		if sandwich {
			switch {
			case phase == 0:
				h.only, h.forceKeep = map[string]bool{"NNI": true}, true
			case phase <= between:
				h.only, h.forceKeep = map[string]bool{"Reroot": true, "RotateInternalNodes": true, "SortNeighborsByTips": true, "Decorate": true}, false
			case phase == between+1:
				h.only = map[string]bool{"NNI.UndoLater": true}
			default:
				h.only, sandwich = nil, false
			}
			phase++
			if h.only != nil && h.only["NNI"] {
				// needs a branch whose two ends have three neighbours
				n := 0
				(&tree.NNIRearranger{}).Rearrange(h.t, func(tree.Rearrangement) bool { n++; return false })
				if n == 0 {
					h.only, sandwich = nil, false
				}
			}
			if h.only != nil && h.only["NNI.UndoLater"] && (h.pending == nil || h.pendingOn != h.t || !h.pendingOK) {
				h.only, sandwich = nil, false
			}
		}
		name, desc, ok := h.step()
		if name == "" {
			break
		}
		o.Ev("op:"+name, 1)
		if !ok {
			o.Ev("op_returned_error", 1)
			prev = name
			continue
		}
		succ++
		kinds[name] = true
		o.AddSet("op_pairs", prev+">"+name)
		prev = name
		ctx := fmt.Sprintf("step %d %s; history: %s; start: %s", s, desc, strings.Join(h.log, " ; "), Trunc(start, 1500))
		if !checkStructure(o, h.t, ctx) {
			break
		}
	}
	o.Ev("steps_ok", succ)
	o.Nontrivial = succ >= 5 && len(kinds) >= 4
	o.SetFP(start, strings.Join(h.log, ";"))
	o.Sample = Trunc(start, 120) + " :: " + Trunc(strings.Join(h.log, " ; "), 400)
}
