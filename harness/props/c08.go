package props

import (
	"fmt"
	"math"
	"math/rand"
	"sort"
	"strconv"
	"strings"

	"github.com/evolbioinfo/gotree/tree"

	"verif/gen"
	"verif/ref"
)

func init() {
	Register(&Prop{
		ID:       "C08",
		Chunk:    60,
		NeedsCLI: true,
		Count: func(c *Ctx) int {
			if c.Thorough() {
				return 60000
			}
			return 2400
		},
		Rule: "case = pair of unrooted trees on the same taxa (independent / identical / contraction / refinement / NNI neighbour / star vs binary, re-rooted and rotated presentations) x {tips} x {identical-only}; Compare, CompareWeighted (all lengths present: exact terms; lengths partly or wholly absent: self-comparison gives zero differences, swapping negates them), CommonEdges (prepared by ReinitIndexes, or by the documented UpdateTipIndex+ClearBitSets+UpdateBitSet on objects indexed and re-rooted before), and (every 8th case) the gotree compare trees table; plus taxon-mismatch variants; non-trivial = both trees have an inner branch and the pair is not (0,0,0); distinct by the two texts",
		Assumptions: []string{
			"pairs of unrooted trees (root degree >= 3) on the same >= 4 taxa (quantifier); weighted comparison on trees with all lengths present",
			"weighted Sametree is only asserted to imply 'no unshared split' (it additionally compares lengths)",
			"single-threaded here; thread counts are C11",
		},
		Run: runC08,
	})
}

func chanOf(ts ...*tree.Tree) <-chan tree.Trees {
	ch := make(chan tree.Trees, len(ts))
	for i, t := range ts {
		ch <- tree.Trees{Tree: t, Id: i}
	}
	close(ch)
	return ch
}

// c08Pair returns two Newick texts on the same taxa.
func c08Pair(r *rand.Rand, n int, lens string) (string, string, string) {
	names := gen.Names(r, n, gen.Pick(r, "simple", "simple", "hostile"))
	mk := func(shape string, multi float64) *ref.Tree {
		R := gen.Tree(r, gen.Opts{N: n, Shape: shape, RootDeg: gen.Pick(r, 3, 3, 4), MultiP: multi,
			Lens: lens, LenCls: gen.Pick(r, "len", "tie"), SupP: 0.5, SupCls: "unit"})
		p := r.Perm(n)
		for i, tp := range modelTips(R) {
			tp.Name = names[p[i]]
		}
		return R
	}
	A := mk(gen.Pick(r, "random", "random", "caterpillar", "balanced"), gen.Pick(r, 0.0, 0.0, 0.3))
	a := A.Newick()
	kind := gen.Pick(r, "independent", "independent", "identical", "contraction", "refinement", "nni", "star", "represent")
	var b string
	switch kind {
	case "independent":
		b = mk("random", gen.Pick(r, 0.0, 0.3)).Newick()
	case "identical":
		b = a
	case "represent":
		t := mustParse(a)
		in := innerNodes(t)
		t.Reroot(in[r.Intn(len(in))])
		rand.Seed(r.Int63())
		t.RotateInternalNodes()
		b = t.Newick()
	case "contraction":
		t := mustParse(a)
		es := t.InternalEdges()
		if len(es) > 0 {
			k := 1 + r.Intn(min(3, len(es)))
			var sel []*tree.Edge
			for _, i := range r.Perm(len(es))[:k] {
				sel = append(sel, es[i])
			}
			t.RemoveEdges(false, false, sel...)
		}
		b = t.Newick()
	case "refinement":
		// a is a contraction of b
		t := mustParse(a)
		es := t.InternalEdges()
		if len(es) > 0 {
			t.RemoveEdges(false, false, es[r.Intn(len(es))])
		}
		a, b = t.Newick(), a
	case "nni":
		t := mustParse(a)
		var rs []tree.Rearrangement
		(&tree.NNIRearranger{}).Rearrange(t, func(x tree.Rearrangement) bool { rs = append(rs, x); return true })
		if len(rs) > 0 {
			rs[r.Intn(len(rs))].Apply()
		}
		b = t.Newick()
	case "star":
		b = mk("star", 0).Newick()
	}
	if r.Intn(2) == 0 {
		a, b = b, a
	}
	return a, b, kind
}

func sortedFloats(x []float64) []uint64 {
	o := make([]uint64, len(x))
	for i, v := range x {
		o[i] = math.Float64bits(v)
	}
	sort.Slice(o, func(i, j int) bool { return o[i] < o[j] })
	return o
}

func sameBits(a, b []uint64) bool {
	if len(a) != len(b) {
		return false
	}
	for i := range a {
		if a[i] != b[i] {
			return false
		}
	}
	return true
}

func runC08(c *Ctx, idx int, o *Obs) {
	r := c.Rng("C08", idx)
	maxTips := 60
	if c.Thorough() && idx%10 == 0 {
		maxTips = 300
	}
	n := gen.Size(r, 4, maxTips)
	lens := gen.Pick(r, "all", "all", "mixed", "none")
	a, b, kind := c08Pair(r, n, lens)
	inp := a + " vs " + b
	o.Sample = Trunc(inp, 400)
	o.SetFP(inp)
	o.Class = kind + "/len-" + lens
	ma, mb := modelOf(mustParse(a)), modelOf(mustParse(b))
	tx := ref.NewTaxa(ma.Tips())
	sa, sb := ma.Splits(tx), mb.Splits(tx)
	count := func(tips bool) (t1, cm, t2 int) {
		for k, s := range sa {
			if s.Trivial && !tips {
				continue
			}
			if _, ok := sb[k]; ok {
				cm++
			} else {
				t1++
			}
		}
		for k, s := range sb {
			if s.Trivial && !tips {
				continue
			}
			if _, ok := sa[k]; !ok {
				t2++
			}
		}
		return
	}
	one := func(ref_, comp string, tips, identical bool) (tree.BipartitionStats, bool) {
		// a third of the calls get tree objects with a past (indexed under another tip name, then renamed): see usedObject
		ta, tb := mustParse(ref_), mustParse(comp)
		if r.Intn(3) == 0 {
			ta, tb = usedObject(r, ref_), usedObject(r, comp)
			o.Ev("Compare_used_objects", 1)
		}
		ch, err := tree.Compare(ta, chanOf(tb), tips, identical, 1)
		if !o.Check(err == nil, "compare_error", fmt.Sprint(err), inp) {
			return tree.BipartitionStats{}, false
		}
		var recs []tree.BipartitionStats
		for s := range ch {
			recs = append(recs, s)
		}
		if !o.Check(len(recs) == 1 && recs[0].Id == 0, "compare_records", fmt.Sprintf("%d records for one tree", len(recs)), inp) {
			return tree.BipartitionStats{}, false
		}
		o.Ev("Compare", 1)
		return recs[0], true
	}
	nontrivial := false
	for _, tips := range []bool{false, true} {
		t1, cm, t2 := count(tips)
		if t1+t2 > 0 && cm > 0 {
			nontrivial = true
		}
		st, ok := one(a, b, tips, false)
		if !ok {
			return
		}
		if !o.Check(st.Err == nil, "compare_record_error", fmt.Sprint(st.Err), inp) {
			return
		}
		o.Check(st.Tree1 == t1 && st.Common == cm && st.Tree2 == t2, "compare_counts",
			fmt.Sprintf("tips=%v: got (ref-only %d, common %d, comp-only %d), set algebra says (%d,%d,%d)", tips, st.Tree1, st.Common, st.Tree2, t1, cm, t2), inp, "tips", fmt.Sprint(tips))
		o.Check(st.Sametree == (t1 == 0 && t2 == 0), "compare_sametree",
			fmt.Sprintf("tips=%v: Sametree=%v but ref-only=%d comp-only=%d", tips, st.Sametree, t1, t2), inp, "mode", "full")
		// swapped
		sw, ok := one(b, a, tips, false)
		if ok && sw.Err == nil {
			o.Check(sw.Tree1 == t2 && sw.Common == cm && sw.Tree2 == t1, "compare_swap",
				fmt.Sprintf("tips=%v: swapped arguments give (%d,%d,%d), expected (%d,%d,%d)", tips, sw.Tree1, sw.Common, sw.Tree2, t2, cm, t1), inp)
			o.Check(sw.Sametree == (t1 == 0 && t2 == 0), "compare_sametree",
				fmt.Sprintf("tips=%v swapped: Sametree=%v but only-counts %d/%d", tips, sw.Sametree, t2, t1), inp, "mode", "full")
		}
		// identical-only shortcut
		id, ok := one(a, b, tips, true)
		if ok && id.Err == nil {
			o.Check(id.Sametree == (t1 == 0 && t2 == 0), "compare_sametree",
				fmt.Sprintf("tips=%v identical-only: Sametree=%v but ref-only=%d comp-only=%d", tips, id.Sametree, t1, t2), inp, "mode", "identical-only")
		}
		// re-rooted / rotated presentations of either tree change nothing
		ta, tb := mustParse(a), mustParse(b)
		for _, t := range []*tree.Tree{ta, tb} {
			in := innerNodes(t)
			// only re-root at nodes of degree >= 3 so that the presentation stays unrooted
			var cand []*tree.Node
			for _, x := range in {
				if x.Nneigh() >= 3 {
					cand = append(cand, x)
				}
			}
			t.Reroot(cand[r.Intn(len(cand))])
			rand.Seed(r.Int63())
			t.RotateInternalNodes()
		}
		rp, ok := one(ta.Newick(), tb.Newick(), tips, false)
		if ok && rp.Err == nil {
			o.Check(rp.Tree1 == t1 && rp.Common == cm && rp.Tree2 == t2, "compare_presentation",
				fmt.Sprintf("tips=%v: after re-rooting/rotating both trees (%d,%d,%d), expected (%d,%d,%d)", tips, rp.Tree1, rp.Common, rp.Tree2, t1, cm, t2), inp+" ; presented as "+Trunc(ta.Newick(), 800)+" vs "+Trunc(tb.Newick(), 800))
		}
		// CommonEdges
		xa, xb := mustParse(a), mustParse(b)
		if r.Intn(3) == 0 {
			// the preparation CommonEdges documents (UpdateTipIndex, ClearBitSets, UpdateBitSet), on objects that
			// were indexed in full before and re-rooted since (hash codes of another rooting are lying around)
			for _, x := range []*tree.Tree{xa, xb} {
				if r.Intn(2) == 0 {
					x.ReinitIndexes()
					var cand []*tree.Node
					for _, nd := range innerNodes(x) {
						if nd.Nneigh() >= 3 {
							cand = append(cand, nd)
						}
					}
					x.Reroot(cand[r.Intn(len(cand))])
				}
				x.UpdateTipIndex()
				x.ClearBitSets()
				x.UpdateBitSet()
			}
			o.Ev("CommonEdges_documented_preparation", 1)
		} else {
			xa.ReinitIndexes()
			xb.ReinitIndexes()
		}
		ce1, cec, err := xa.CommonEdges(xb, tips)
		o.Check(err == nil && ce1 == t1 && cec == cm, "common_edges", fmt.Sprintf("tips=%v: CommonEdges=(%d,%d,err %v), expected (%d,%d)", tips, ce1, cec, err, t1, cm), inp)

		// weighted
		if lens == "all" {
			wa, wb := mustParse(a), mustParse(b)
			if r.Intn(3) == 0 {
				wa, wb = usedObject(r, a), usedObject(r, b)
			}
			ch, err := tree.CompareWeighted(wa, chanOf(wb), tips, false, 1)
			if o.Check(err == nil, "weighted_error", fmt.Sprint(err), inp) {
				var recs []tree.WeightedBipartitionStats
				for s := range ch {
					recs = append(recs, s)
				}
				o.Ev("CompareWeighted", 1)
				if o.Check(len(recs) == 1 && recs[0].Err == nil, "weighted_records", fmt.Sprintf("%d records", len(recs)), inp) {
					var w1, w2, wc []float64
					for k, s := range sa {
						if s.Trivial && !tips {
							continue
						}
						if s2, ok := sb[k]; ok {
							wc = append(wc, s.Len-s2.Len)
						} else {
							w1 = append(w1, s.Len)
						}
					}
					for k, s := range sb {
						if s.Trivial && !tips {
							continue
						}
						if _, ok := sa[k]; !ok {
							w2 = append(w2, s.Len)
						}
					}
					st := recs[0]
					o.Check(sameBits(sortedFloats(st.Tree1), sortedFloats(w1)), "weighted_ref_only", fmt.Sprintf("tips=%v: lengths of reference-only splits %v, expected %v", tips, st.Tree1, w1), inp)
					o.Check(sameBits(sortedFloats(st.Tree2), sortedFloats(w2)), "weighted_comp_only", fmt.Sprintf("tips=%v: lengths of compared-only splits %v, expected %v", tips, st.Tree2, w2), inp)
					o.Check(sameBits(sortedFloats(st.Common), sortedFloats(wc)), "weighted_common", fmt.Sprintf("tips=%v: length differences of shared splits %v, expected %v", tips, st.Common, wc), inp)
					if st.Sametree {
						o.Check(len(w1) == 0 && len(w2) == 0, "weighted_sametree", "Sametree although unshared splits exist", inp)
					}
				}
			}
		} else {
			// lengths partly or wholly absent: what an absent length counts for is not stated, but whatever it is,
			// a tree compared with another presentation of itself has only shared splits with difference zero,
			// and swapping the two trees negates the differences and swaps the two other lists
			wrun := func(x, y string) (tree.WeightedBipartitionStats, bool) {
				ch, err := tree.CompareWeighted(mustParse(x), chanOf(mustParse(y)), tips, false, 1)
				if !o.Check(err == nil, "weighted_error", fmt.Sprint(err), inp) {
					return tree.WeightedBipartitionStats{}, false
				}
				var recs []tree.WeightedBipartitionStats
				for s := range ch {
					recs = append(recs, s)
				}
				o.Ev("CompareWeighted_partial_lengths", 1)
				if !o.Check(len(recs) == 1 && recs[0].Err == nil, "weighted_records", fmt.Sprintf("%d records", len(recs)), inp) {
					return tree.WeightedBipartitionStats{}, false
				}
				return recs[0], true
			}
			if self, ok := wrun(a, ta.Newick()); ok {
				zero := true
				for _, v := range self.Common {
					zero = zero && v == 0
				}
				o.Check(len(self.Tree1) == 0 && len(self.Tree2) == 0 && zero, "weighted_self",
					fmt.Sprintf("tips=%v lengths %s: a tree against a re-rooted, rotated copy of itself: ref-only %v, comp-only %v, differences %v", tips, lens, self.Tree1, self.Tree2, self.Common),
					a+" vs "+ta.Newick())
			}
			ab, ok1 := wrun(a, b)
			ba, ok2 := wrun(b, a)
			if ok1 && ok2 {
				neg := make([]float64, len(ba.Common))
				for i, v := range ba.Common {
					neg[i] = 0 - v
				}
				for i, v := range neg { // -0 and 0 are the same difference
					if v == 0 {
						neg[i] = 0
					}
				}
				abc := append([]float64{}, ab.Common...)
				for i, v := range abc {
					if v == 0 {
						abc[i] = 0
					}
				}
				o.Check(sameBits(sortedFloats(abc), sortedFloats(neg)) && sameBits(sortedFloats(ab.Tree1), sortedFloats(ba.Tree2)) && sameBits(sortedFloats(ab.Tree2), sortedFloats(ba.Tree1)),
					"weighted_swap", fmt.Sprintf("tips=%v lengths %s: (ref-only %v, differences %v, comp-only %v) but swapped (ref-only %v, differences %v, comp-only %v)", tips, lens, ab.Tree1, ab.Common, ab.Tree2, ba.Tree1, ba.Common, ba.Tree2), inp)
			}
		}
	}

	// ---- differing taxa => rejected -------------------------------------------------------
	{
		mm := mb.Clone()
		tips := modelTips(mm)
		variant := gen.Pick(r, "renamed", "extra", "missing")
		switch variant {
		case "renamed":
			tips[r.Intn(len(tips))].Name = "other_taxon"
		case "extra":
			nd := tips[r.Intn(len(tips))]
			nd.Children = []*ref.Node{{Name: nd.Name, Len: ref.N(1)}, {Name: "other_taxon", Len: ref.N(1)}}
			nd.Name = ""
		case "missing":
			if len(tips) > 4 {
				keep := setOf(mm.Tips())
				delete(keep, tips[r.Intn(len(tips))].Name)
				mm = mm.Restrict(keep)
			} else {
				tips[0].Name = "other_taxon"
			}
		}
		bad := mm.Newick()
		for _, ident := range []bool{false, true} {
			var st tree.BipartitionStats
			var got int
			if !o.Guard("compare_mismatch_panic", a+" vs "+bad, func() {
				ch, err := tree.Compare(mustParse(a), chanOf(mustParse(bad)), r.Intn(2) == 0, ident, 1)
				if err != nil {
					got = -1
					return
				}
				for s := range ch {
					st = s
					got++
				}
			}) {
				o.Ev("mismatch:"+variant, 1)
				o.Check(got == -1 || (got == 1 && st.Err != nil), "compare_mismatch_accepted",
					fmt.Sprintf("%s taxon, identical-only=%v: record without error (ref-only %d common %d comp-only %d same %v)", variant, ident, st.Tree1, st.Common, st.Tree2, st.Sametree), a+" vs "+bad, "variant", variant)
			}
		}
	}

	// the weighted comparison rejects differing taxa too
	{
		mm := mb.Clone()
		tips := modelTips(mm)
		tips[r.Intn(len(tips))].Name = "taxon_of_no_other_tree"
		bad := mm.Newick()
		var st tree.WeightedBipartitionStats
		got := 0
		if !o.Guard("compare_mismatch_panic", a+" vs "+bad, func() {
			ch, err := tree.CompareWeighted(mustParse(a), chanOf(mustParse(bad)), r.Intn(2) == 0, false, 1)
			if err != nil {
				got = -1
				return
			}
			for s := range ch {
				st = s
				got++
			}
		}) {
			o.Ev("mismatch:weighted", 1)
			o.Check(got == -1 || (got == 1 && st.Err != nil), "compare_mismatch_accepted",
				fmt.Sprintf("weighted comparison, renamed taxon: record without error (ref-only %v common %v comp-only %v)", st.Tree1, st.Common, st.Tree2), a+" vs "+bad, "variant", "weighted")
		}
	}

	// ---- the command ---------------------------------------------------------------------
	if idx%8 == 1 {
		fa := tmpFile(c, "ref.nw", a+"\n")
		fb := tmpFile(c, "comp.nw", b+"\n"+a+"\n"+b+"\n")
		t1, cm, t2 := count(false)
		res := runCLI(c, "", "compare", "trees", "-i", fa, "-c", fb)
		o.Ev("cli", 1)
		if o.Check(res.Exit == 0 && !res.Panic, "cli_compare_failed", res.brief(), inp) {
			want := fmt.Sprintf("tree\treference\tcommon\tcompared\n0\t%d\t%d\t%d\n1\t0\t%d\t0\n2\t%d\t%d\t%d\n", t1, cm, t2, t1+cm, t1, cm, t2)
			o.Check(res.Stdout == want, "cli_compare_table", fmt.Sprintf("got %q, expected %q", res.Stdout, want), inp)
		}
		res = runCLI(c, "", "compare", "trees", "-i", fa, "-c", fb, "--rf", "-l")
		t1l, _, t2l := count(true)
		if o.Check(res.Exit == 0 && !res.Panic, "cli_compare_failed", res.brief(), inp) {
			want := fmt.Sprintf("%d\n0\n%d\n", t1l+t2l, t1l+t2l)
			o.Check(res.Stdout == want, "cli_compare_rf", fmt.Sprintf("got %q, expected %q", res.Stdout, want), inp)
		}
		// identical-only mode, with and without tips: line i says whether tree i is the reference tree
		for _, extra := range [][]string{{"--binary"}, {"--binary", "-l"}} {
			res = runCLI(c, "", append([]string{"compare", "trees", "-i", fa, "-c", fb}, extra...)...)
			o.Ev("cli", 1)
			if o.Check(res.Exit == 0 && !res.Panic, "cli_compare_failed", strings.Join(extra, " ")+": "+res.brief(), inp) {
				same := t1 == 0 && t2 == 0
				want := fmt.Sprintf("tree\tidentical\n0\t%v\n1\ttrue\n2\t%v\n", same, same)
				o.Check(res.Stdout == want, "cli_compare_binary", fmt.Sprintf("compare trees %s: got %q, expected %q", strings.Join(extra, " "), res.Stdout, want), inp, "opts", strings.Join(extra, " "))
			}
		}
		if lens == "all" {
			for _, withTips := range []bool{false, true} {
				wargs := []string{"compare", "trees", "-i", fa, "-c", fb, "--weighted"}
				if withTips {
					wargs = append(wargs, "-l")
				}
				res = runCLI(c, "", wargs...)
				if o.Check(res.Exit == 0 && !res.Panic, "cli_compare_failed", res.brief(), inp) {
					wrf, kf := 0.0, 0.0
					for k, s := range sa {
						if s.Trivial && !withTips {
							continue
						}
						if s2, ok := sb[k]; ok {
							wrf += math.Abs(s.Len - s2.Len)
							kf += (s.Len - s2.Len) * (s.Len - s2.Len)
						} else {
							wrf += s.Len
							kf += s.Len * s.Len
						}
					}
					for k, s := range sb {
						if _, ok := sa[k]; !ok && (!s.Trivial || withTips) {
							wrf += s.Len
							kf += s.Len * s.Len
						}
					}
					lines := strings.Split(strings.TrimSpace(res.Stdout), "\n")
					okFmt := len(lines) == 4 && lines[0] == "tree\tweighted_RF\tKF"
					if o.Check(okFmt, "cli_weighted_table", fmt.Sprintf("unexpected table %q", res.Stdout), inp) {
						f := strings.Split(lines[1], "\t")
						g1, e1 := strconv.ParseFloat(f[1], 64)
						g2, e2 := strconv.ParseFloat(f[2], 64)
						near := func(x, y float64) bool { return math.Abs(x-y) <= 2e-6*math.Max(math.Abs(x), math.Abs(y))+1e-12 }
						o.Check(e1 == nil && e2 == nil && near(g1, wrf) && near(g2, math.Sqrt(kf)), "cli_weighted_values",
							fmt.Sprintf("--weighted tips=%v: printed wRF=%s KF=%s, recomputed %E %E", withTips, f[1], f[2], wrf, math.Sqrt(kf)), inp, "tips", fmt.Sprint(withTips))
					}
				}
			}
		}
	}
	innerA, innerB := false, false
	for _, s := range sa {
		innerA = innerA || !s.Trivial
	}
	for _, s := range sb {
		innerB = innerB || !s.Trivial
	}
	o.Nontrivial = innerA && innerB && nontrivial
}
