package props

import (
	"fmt"
	"math/rand"
	"strings"

	"github.com/evolbioinfo/gotree/tree"

	"verif/gen"
	"verif/ref"
)

func init() {
	Register(&Prop{
		ID:       "C06",
		Chunk:    60,
		NeedsCLI: true,
		Count: func(c *Ctx) int {
			if c.Thorough() {
				return 60000
			}
			return 2400
		},
		Rule: "case = one generated tree x several tip subsets (random, whole clades, all-but-one child of a polytomy, tips at the root, " +
			"cherries, one side of the root; remove or keep; with absent names), library (trees not indexed / name index only / fully indexed before pruning: look-ups by name, and for fully indexed trees the index monitor on what RemoveTips recomputes) and (every 8th case) the gotree prune command with tips as arguments or in tip files of every accepted layout (one per line, comma lines, one line longer than 4096 bytes, no final newline, empty lines), on single trees and on files of several trees; " +
			"non-trivial = tree has an inner branch and at least one subset removed >= 1 tip while an inner branch survived; distinct by (tree, subsets)",
		Assumptions: []string{
			"always >= 3 tips left; start trees have no single-child inner nodes (quantifier)",
			"supports of merged branches are not part of C06 and are not compared; path sums to 1e-9 relative, absent length = 0",
			"name look-ups are asserted when the tip index had been initialised before pruning (otherwise look-ups report 'not initialised')",
		},
		Run: runC06,
	})
}

func noSingles(m *ref.Tree) string {
	bad := ""
	var rec func(n *ref.Node, root bool)
	rec = func(n *ref.Node, root bool) {
		if !n.IsTip() && len(n.Children) < 2 {
			if root {
				bad = "root has a single child"
			} else {
				bad = "inner node with a single child left behind"
			}
		}
		for _, c := range n.Children {
			rec(c, false)
		}
	}
	rec(m.Root, true)
	return bad
}

func runC06(c *Ctx, idx int, o *Obs) {
	r := c.Rng("C06", idx)
	maxTips := 80
	if c.Thorough() && idx%10 == 0 {
		maxTips = 400
	}
	n := gen.Size(r, 4, maxTips)
	opts := gen.Opts{
		N: n, Shape: gen.Pick(r, "random", "random", "random", "caterpillar", "balanced", "star", "broom"),
		RootDeg: gen.Pick(r, 0, 2, 2, 3, 3, 5), MultiP: gen.Pick(r, 0.0, 0.3, 0.6),
		Lens: gen.Pick(r, "all", "all", "mixed", "none"), LenCls: gen.Pick(r, "len", "tie", "dec", "neg"),
		SupP: gen.Pick(r, 0.0, 0.5, 1.0), SupCls: "unit", InnerNameP: gen.Pick(r, 0.0, 0.2),
		Names: gen.Pick(r, "simple", "simple", "hostile"),
	}
	useCLI := idx%8 == 3
	if useCLI {
		opts.Names = "simple"
	}
	R := gen.Tree(r, opts)
	labelClash := false
	if r.Intn(4) == 0 {
		labelClash = true // such trees have no Nexus (translate) form: node names must be unique there
		// taxonomy-like labels: some inner nodes carry the name of a tip (legal: only tips are looked up by name)
		var tn []string
		for _, nm := range R.Tips() {
			if !gen.NumericLooking(nm) { // an inner label that reads as a number is a support, not a name (C01's domain)
				tn = append(tn, nm)
			}
		}
		var inner []*ref.Node
		for _, nd := range allNodes(R)[1:] {
			if !nd.IsTip() && !nd.Sup.Has {
				inner = append(inner, nd)
			}
		}
		for j := 0; j < 3 && len(inner) > 0 && len(tn) > 0; j++ {
			inner[r.Intn(len(inner))].Name = tn[r.Intn(len(tn))]
		}
		if r.Intn(2) == 0 && !R.Root.Sup.Has && len(tn) > 0 {
			R.Root.Name = tn[r.Intn(len(tn))]
		}
		o.Ev("inner_labels_equal_to_tip_names", 1)
	}
	start := R.Newick()
	o.Sample = Trunc(start, 300)
	o.Class = fmt.Sprintf("%s/root%d/len-%s", opts.Shape, len(R.Root.Children), opts.Lens)
	bm := modelOf(mustParse(start))
	all := bm.SortedTips()
	clades := allClades(bm)

	var subsets [][]string // sets to REMOVE
	add := func(s []string) {
		if len(s) >= 1 && len(all)-len(setOf(s)) >= 3 {
			subsets = append(subsets, s)
		}
	}
	for k := 0; k < 3; k++ {
		add(randSubset(r, all, 1+r.Intn(len(all)-3)))
	}
	for _, i := range r.Perm(len(clades))[:min(4, len(clades))] {
		add(clades[i]) // whole clade
		if len(clades[i]) > 1 {
			add(clades[i][1:]) // all but one tip of a clade
		}
	}
	// tips attached to the root; one whole side of the root
	var rootTips []string
	for _, ch := range bm.Root.Children {
		if ch.IsTip() {
			rootTips = append(rootTips, ch.Name)
		}
	}
	add(rootTips)
	if len(rootTips) > 0 {
		add(rootTips[:1])
	}
	add(nodeTipNames(bm.Root.Children[0]))
	add(nodeTipNames(bm.Root.Children[len(bm.Root.Children)-1]))
	// all-but-one child of a polytomy / both tips of a cherry
	for _, nd := range allNodes(bm) {
		if nd.IsTip() || r.Intn(3) != 0 {
			continue
		}
		var s []string
		for _, ch := range nd.Children[1:] {
			s = append(s, nodeTipNames(ch)...)
		}
		add(s)
		if len(nd.Children) == 2 && nd.Children[0].IsTip() && nd.Children[1].IsTip() {
			add([]string{nd.Children[0].Name, nd.Children[1].Name})
		}
		if len(subsets) > 24 {
			break
		}
	}
	var fpParts []string
	effective := 0
	for si, rem := range subsets {
		remSet := setOf(rem)
		keep := map[string]bool{}
		var keepList []string
		for _, a := range all {
			if !remSet[a] {
				keep[a] = true
				keepList = append(keepList, a)
			}
		}
		revert := r.Intn(3) == 0
		args := append([]string(nil), rem...)
		if revert {
			args = append([]string(nil), keepList...)
		}
		if r.Intn(4) == 0 {
			args = append(args, "absent_name_x", "absent_name_y")
		}
		r.Shuffle(len(args), func(i, j int) { args[i], args[j] = args[j], args[i] })
		indexed := r.Intn(3)
		what := fmt.Sprintf("RemoveTips(revert=%v, %s) indexed=%d", revert, short(args), indexed)
		inp := start + " ; " + what + " ; full list: " + strings.Join(args, ",")
		fpParts = append(fpParts, what)
		want := reduce(bm.Restrict(keep), true)

		t := mustParse(start)
		switch indexed {
		case 1:
			t.UpdateTipIndex()
		case 2:
			t.ReinitIndexes()
		}
		err := t.RemoveTips(revert, args...)
		o.Ev("RemoveTips", 1)
		if !o.Check(err == nil, "prune_error", what+": "+fmt.Sprint(err), inp) {
			continue
		}
		am := modelOf(t)
		got := reduce(am, true)
		d := sameTree(want, got, false)
		if !o.Check(d == "", "prune_not_induced", what+": "+d, inp+" => "+Trunc(t.Newick(), 1500)) {
			continue
		}
		o.Check(noSingles(am) == "", "prune_single_node", what+": "+noSingles(am), inp+" => "+Trunc(t.Newick(), 1500))
		checkStructure(o, t, what)
		o.Check(len(t.Tips()) == len(keepList), "prune_ntips", fmt.Sprintf("%s: Tips() has %d, expected %d", what, len(t.Tips()), len(keepList)), inp)
		nonTrivialLeft := false
		for _, s := range got.splits {
			if !s.Trivial {
				nonTrivialLeft = true
			}
		}
		if nonTrivialLeft {
			effective++
		}
		if indexed > 0 {
			// look-ups by name reflect the new tip set
			for _, a := range all {
				ex, err := t.ExistsTip(a)
				if err != nil {
					o.Check(false, "lookup_error", what+": ExistsTip: "+err.Error(), inp)
					break
				}
				if !o.Check(ex == keep[a], "lookup_stale", fmt.Sprintf("%s: ExistsTip(%q)=%v after pruning (kept=%v)", what, a, ex, keep[a]), inp, "fn", "ExistsTip") {
					break
				}
				nd, err := t.TipNode(a)
				if keep[a] {
					ok := err == nil && nd != nil && nd.Name() == a && nd.Tip()
					if ok { // the node must be part of the tree
						found := false
						for _, tp := range t.Tips() {
							if tp == nd {
								found = true
							}
						}
						ok = found
					}
					if !o.Check(ok, "lookup_stale", fmt.Sprintf("%s: TipNode(%q) does not return the live tip (err=%v)", what, a, err), inp, "fn", "TipNode") {
						break
					}
				} else if !o.Check(err != nil, "lookup_stale", fmt.Sprintf("%s: TipNode(%q) still answers for a removed tip", what, a), inp, "fn", "TipNode") {
					break
				}
			}
			ex, err := t.ExistsTip("absent_name_x")
			o.Check(err == nil && !ex, "lookup_absent", "ExistsTip(absent name) after pruning", inp)
		}
		if indexed == 2 {
			// RemoveTips re-computes the indexes of a tree that had them ("removed tips must not remain in it"):
			// what it leaves must describe the pruned tree (tip ranks, bitsets, tip counts, depths), see C04
			before := len(o.Viols)
			if indexMonitor(o, t, inp+" => "+Trunc(t.Newick(), 1500)); len(o.Viols) > before {
				o.Viols[len(o.Viols)-1].Detail = what + ": indexes recomputed by RemoveTips: " + o.Viols[len(o.Viols)-1].Kind + ": " + o.Viols[len(o.Viols)-1].Detail
				o.Viols[len(o.Viols)-1].Kind = "prune_index_wrong"
			}
			o.Ev("index_monitor_after_prune", 1)
		}

		// the same through the command
		if useCLI && si < 3 {
			inArgs, inStdin, inMode := presentTrees(c, r, "in", []string{start}, plainNewick(start) && !labelClash)
			o.Ev("cli_input:"+inMode, 1)
			var res cliRes
			mode := si % 2
			if mode == 0 {
				cl := append([]string{"prune"}, inArgs...)
				if revert {
					cl = append(cl, "-r")
				}
				res, _ = runCLIOut(c, r, inStdin, append(cl, args...)...)
			} else {
				content, kind := tipFileContent(r, args)
				o.Ev("cli_tipfile:"+kind, 1)
				tf := tmpFile(c, "tips.txt", content)
				cl := append(append([]string{"prune"}, inArgs...), "-f", tf)
				if revert {
					cl = append(cl, "-r")
				}
				res, _ = runCLIOut(c, r, inStdin, cl...)
			}
			what += " (input: " + inMode + ")"
			o.Ev("cli_prune", 1)
			if !o.Check(res.Exit == 0 && !res.Panic, "cli_prune_failed", what+": "+res.brief(), inp) {
				continue
			}
			ct, err := parseNewick(strings.TrimSpace(res.Stdout))
			if !o.Check(err == nil, "cli_prune_output", fmt.Sprintf("%s: unreadable output %q: %v", what, Trunc(res.Stdout, 200), err), inp) {
				continue
			}
			d := sameTree(want, reduce(modelOf(ct), true), false)
			o.Check(d == "", "cli_prune_not_induced", what+" (gotree prune): "+d, inp+" => "+Trunc(res.Stdout, 1500))
		}
	}
	// several trees with different tip sets in one file: every tree is pruned against ITS OWN tips
	if useCLI && len(all) >= 7 {
		core := randSubset(r, all, max(4, len(all)/2))
		coreSet := setOf(core)
		var rest []string
		for _, nm := range all {
			if !coreSet[nm] {
				rest = append(rest, nm)
			}
		}
		var lines []string
		var models []*ref.Tree
		for i := 0; i < 3+r.Intn(3); i++ {
			keep := setOf(core)
			for _, nm := range rest {
				if r.Intn(2) == 0 {
					keep[nm] = true
				}
			}
			m := bm.Restrict(keep)
			models = append(models, m)
			lines = append(lines, m.Newick())
		}
		multi := tmpFile(c, "multi.nw", strings.Join(lines, "\n")+"\n")
		compText := "(" + strings.Join(append(append([]string{}, core...), "only_in_comp"), ",") + ");\n"
		if len(rest) >= 2 && len(core) >= 4 && r.Intn(2) == 0 {
			// inner nodes of the compared tree labelled like tips of the input trees: labels of inner nodes are not tips
			compText = "((" + core[0] + "," + core[1] + ")" + rest[0] + ",(" + core[2] + "," + core[3] + ")" + rest[1] + "," +
				strings.Join(append(append([]string{}, core[4:]...), "only_in_comp"), ",") + ");\n"
		}
		comp := tmpFile(c, "comp.nw", compText)
		tfContent, tfKind := tipFileContent(r, rest)
		o.Ev("cli_tipfile:"+tfKind, 1)
		tf := tmpFile(c, "tips.txt", tfContent)
		for _, mode := range []string{"comp", "tipfile", "args"} {
			var cl []string
			switch mode {
			case "comp":
				cl = []string{"prune", "-i", multi, "-c", comp}
			case "tipfile":
				cl = []string{"prune", "-i", multi, "-f", tf}
			default:
				cl = append([]string{"prune", "-i", multi}, rest...)
			}
			if len(rest) == 0 && mode != "comp" {
				continue
			}
			res, _ := runCLIOut(c, r, "", cl...)
			o.Ev("cli_prune_multi", 1)
			what := "gotree prune on a file of " + fmt.Sprint(len(lines)) + " trees with different tip sets (" + mode + ")"
			inp2 := strings.Join(lines, "\n") + "\nkeep: " + strings.Join(core, ",")
			if !o.Check(res.Exit == 0 && !res.Panic, "cli_prune_failed", what+": "+res.brief(), inp2) {
				continue
			}
			outl := strings.Split(strings.TrimSpace(res.Stdout), "\n")
			if !o.Check(len(outl) == len(lines), "cli_prune_multi_count", fmt.Sprintf("%s: %d output trees for %d input trees", what, len(outl), len(lines)), inp2) {
				continue
			}
			for i, ln := range outl {
				ct, err := parseNewick(ln)
				if !o.Check(err == nil, "cli_prune_output", fmt.Sprintf("%s: tree %d unreadable: %v", what, i, err), inp2) {
					break
				}
				want := reduce(models[i].Restrict(coreSet), true)
				d := sameTree(want, reduce(modelOf(ct), true), false)
				if !o.Check(d == "", "cli_prune_not_induced", fmt.Sprintf("%s: tree %d: %s", what, i, d), inp2+" => "+Trunc(ln, 800), "mode", "multi-"+mode) {
					break
				}
			}
		}
	}
	inner := false
	for _, ch := range bm.Root.Children {
		if !ch.IsTip() {
			inner = true
		}
	}
	o.Nontrivial = inner && effective > 0
	o.SetFP(start, strings.Join(fpParts, ";"))
	_ = tree.NIL_LENGTH
}

// tipFileContent writes a tip file in one of the layouts the commands accept: one name per line, several
// comma-separated names per line, or everything on one line that is longer than a 4096-byte read buffer
// (padded with names that are not in any tree, which pruning ignores).
func tipFileContent(r *rand.Rand, names []string) (string, string) {
	switch r.Intn(6) {
	case 4: // empty lines are skipped: at the start, between names, at the end
		var b strings.Builder
		b.WriteString("\n")
		for i, n := range names {
			b.WriteString(n + "\n")
			if i%2 == 0 {
				b.WriteString("\n")
			}
		}
		return b.String() + "\n\n", "empty-lines"
	case 5: // one empty line after the first name only
		if len(names) > 1 {
			return names[0] + "\n\n" + strings.Join(names[1:], ",") + "\n", "empty-line-then-comma-line"
		}
	case 0:
		var b strings.Builder
		for i := 0; i < len(names); i += 3 {
			j := i + 3
			if j > len(names) {
				j = len(names)
			}
			b.WriteString(strings.Join(names[i:j], ",") + "\n")
		}
		return b.String(), "comma-lines"
	case 1:
		all := []string{}
		for i := 0; len(strings.Join(all, ",")) < 6000; i++ {
			all = append(all, fmt.Sprintf("not_a_tip_of_any_tree_%04d", i))
		}
		all = append(all, names...) // the real names come after the 4096th byte
		return strings.Join(all, ",") + "\n", "one-long-line"
	case 2:
		return strings.Join(names, "\n"), "no-final-newline"
	}
	return strings.Join(names, "\n") + "\n", "one-per-line"
}
