package props

import (
	"fmt"
	"math/rand"
	"sort"
	"strings"

	"github.com/evolbioinfo/goalign/align"
	"github.com/evolbioinfo/goalign/io/fasta"
	"github.com/evolbioinfo/gotree/acr"
	"github.com/evolbioinfo/gotree/asr"
	"github.com/evolbioinfo/gotree/io/nexus"
	"github.com/evolbioinfo/gotree/tree"

	"verif/gen"
)

const c18LibKinds = 14

func init() {
	Register(&Prop{
		ID:       "C18",
		Chunk:    8,
		NeedsCLI: true,
		Count: func(c *Ctx) int {
			fam := 3
			if c.Thorough() {
				fam = 12
			}
			return fam * (len(cmdTable) + c18LibKinds)
		},
		Rule: "process level: every command template that runs offline (generate x7, prune, sample, shuffletips, rotate, resolve, collapse x6, reroot, unroot, " +
			"brlen x8, support x4, compute consensus/bipartitiontree/edgetrees/support x5/mutations x2, compare trees x4/edges x2/tips x2, matrix x3, stats x7, " +
			"rename x3 (+ map files), reformat x4, acr x2 (+ state files), asr nucleotide and protein with X, annotate x3, merge, graft, subtree, nni, divide, " +
			"comment x2, labels, ltt, draw x3, repopulate) is run R = 4 (quick) / 12 (thorough) times in fresh processes with the same --seed on generated inputs " +
			"whose maps have >= 12 entries: stdout, exit status and every output file must be byte-identical; threaded commands additionally with -t 4: per-tree " +
			"record lines compared as a set keyed by tree id. Library level: 2..R calls in one process of the randomised / map-consuming functions after re-seeding. " +
			"non-trivial = the command exits with status 0 and produces output; distinct by (template, input family)",
		Assumptions: []string{
			"--seed is always given (any value other than -1, which is documented as the clock: 0, negative and 64-bit values included); the Date / Start / End lines of the support logs (time of the run, minute resolution) are masked before comparing; commands that need the network or a terminal are out of reach offline",
		},
		MinNontrivialFrac: 0.25,
		Run:               runC18,
	})
}

func runC18(c *Ctx, idx int, o *Obs) {
	per := len(cmdTable) + c18LibKinds
	fam := idx / per
	k := idx % per
	r := c.Rng("C18", 7000000+fam)
	if k >= len(cmdTable) {
		c18Lib(c, o, c.Rng("C18", idx), k-len(cmdTable))
		return
	}
	t := &cmdTable[k]
	in := makeInputs(r, c.Tmp, 14+fam*3)
	in.write()
	R := 4
	if c.Thorough() {
		R = 12
	}
	seed := []string{"--seed", fmt.Sprint(gen.Pick(c.Rng("C18", idx), 1, 42, 2147483648, 0, -2, 9223372036854775807))}
	what := fmt.Sprintf("gotree %s %s (inputs family %d)", strings.Join(t.Args, " "), strings.Join(seed, " "), fam)
	o.Class = "cli/" + t.Name
	o.Sample = what
	o.SetFP("cli", t.Name, fmt.Sprint(fam))
	c.Announce(what)
	first := runTmpl(c, t, in, seed, "r")
	o.Ev("process_runs", 1)
	if first.res.TimedOut {
		o.Inconclusive = what + ": wall-clock watchdog"
		return
	}
	o.Check(!first.res.Panic && !first.res.Signal, "cli_crash", what+": "+first.res.brief(), what)
	o.Nontrivial = first.res.Exit == 0 && (len(first.res.Stdout) > 0 || len(first.files) > 0)
	if first.res.Exit != 0 {
		o.Ev("template_failed:"+t.Name, 1)
	}
	for i := 1; i < R; i++ {
		again := runTmpl(c, t, in, seed, "r")
		o.Ev("process_runs", 1)
		if again.res.TimedOut {
			o.Inconclusive = what + ": wall-clock watchdog"
			return
		}
		d := diffRuns(first, again)
		if !o.Check(d == "", "output_differs_between_runs", fmt.Sprintf("%s: run 1 and run %d differ: %s", what, i+1, d), what, "cmd", t.Name) {
			return
		}
	}
	if t.Threaded {
		for i := 0; i < 2; i++ {
			nth := []int{4, 3, 8, 5, 2, 6, 16}[(fam+i*3+k)%7]
			th := runTmpl(c, t, in, append([]string{"-t", fmt.Sprint(nth)}, seed...), "r")
			o.AddSet("thread_counts", fmt.Sprint(nth))
			o.Ev("process_runs_threaded", 1)
			if th.res.TimedOut {
				o.Inconclusive = what + " -t 4: wall-clock watchdog"
				return
			}
			d := ""
			if t.IDCol == -1 {
				d = diffRuns(first, th)
			} else {
				// records may come in any order: compare as multisets of lines (every record line carries its tree id)
				a, b := sortedLines(first.res.Stdout), sortedLines(th.res.Stdout)
				if first.res.Exit != th.res.Exit {
					d = fmt.Sprintf("exit status %d vs %d", first.res.Exit, th.res.Exit)
				} else if strings.Join(a, "\n") != strings.Join(b, "\n") {
					d = "record sets differ: " + firstDiff(strings.Join(a, "\n"), strings.Join(b, "\n"))
				}
			}
			if !o.Check(d == "", "output_differs_with_threads", fmt.Sprintf("%s: -t 1 and -t %d differ: %s", what, nth, d), what, "cmd", t.Name) {
				return
			}
		}
	}
}

func sortedLines(s string) []string {
	l := strings.Split(strings.TrimRight(s, "\n"), "\n")
	sort.Strings(l)
	return l
}

// c18Lib: repeated library calls in one process on equal inputs after re-seeding.
func c18Lib(c *Ctx, o *Obs, r *rand.Rand, kind int) {
	R := 3
	if c.Thorough() {
		R = 8
	}
	ntax := 14 + r.Intn(20)
	m := gen.Tree(r, gen.Opts{N: ntax, Shape: "random", RootDeg: gen.Pick(r, 2, 3), MultiP: 0.3, Lens: "all", LenCls: "dec", SupP: 0.5, SupCls: "unit"})
	text := m.Newick()
	seed := r.Int63()
	names := []string{"RandomUniformBinaryTree", "RandomYuleBinaryTree", "RandomCaterpillarBinaryTree", "RandomBalancedBinaryTree", "ShuffleTips", "Resolve",
		"RotateInternalNodes", "ParsimonyAsr(protein,X)", "ParsimonyAcr", "WriteNexus(translate)", "RenameAuto", "ParsimonyAsr(random-resolve)", "ParsimonyAcr(random-resolve)", "RerootOutGroup(non-monophyletic)"}
	name := names[kind]
	o.Class = "lib/" + name
	o.Sample = fmt.Sprintf("%s seed %d on %s", name, seed, Trunc(text, 200))
	o.SetFP("lib", name, text, fmt.Sprint(seed))
	o.Nontrivial = true
	// alignments
	mkAlign := func(protein bool) align.Alignment {
		var b strings.Builder
		rr := rand.New(rand.NewSource(seed))
		aa := "ARNDCQEGHILKMFPSTWYVX"
		nt := "ACGTRYN-"
		for _, n := range m.Tips() {
			b.WriteString(">" + n + "\n")
			for j := 0; j < 20; j++ {
				if protein {
					if rr.Intn(3) == 0 {
						b.WriteByte('X')
					} else {
						b.WriteByte(aa[rr.Intn(len(aa))])
					}
				} else {
					b.WriteByte(nt[rr.Intn(len(nt))])
				}
			}
			b.WriteString("\n")
		}
		a, err := fasta.NewParser(strings.NewReader(b.String())).Parse()
		if err != nil {
			panic("verif: own alignment rejected: " + err.Error())
		}
		return a
	}
	call := func() string {
		rand.Seed(seed)
		switch kind {
		case 0:
			t, err := tree.RandomUniformBinaryTree(ntax, r.Intn(1) == 0)
			return treeText2(t, err)
		case 1:
			t, err := tree.RandomYuleBinaryTree(ntax, false)
			return treeText2(t, err)
		case 2:
			t, err := tree.RandomCaterpillarBinaryTree(ntax, true)
			return treeText2(t, err)
		case 3:
			t, err := tree.RandomBalancedBinaryTree(4, false)
			return treeText2(t, err)
		case 4:
			t := mustParse(text)
			t.ShuffleTips()
			return t.Newick()
		case 5:
			t := mustParse(text)
			t.Resolve()
			return t.Newick()
		case 6:
			t := mustParse(text)
			t.RotateInternalNodes()
			return t.Newick()
		case 7:
			t := mustParse(text)
			steps, err := asr.ParsimonyAsr(t, mkAlign(true), asr.ALGO_DOWNPASS, false)
			return fmt.Sprint(steps, err) + t.Newick()
		case 8:
			t := mustParse(text)
			st := map[string]string{}
			for i, n := range m.SortedTips() {
				st[n] = string(rune('A' + i%3))
			}
			res, steps, err := acr.ParsimonyAcr(t, st, acr.ALGO_DELTRAN, false)
			var ks []string
			for k, v := range res {
				ks = append(ks, k+"="+v)
			}
			sort.Strings(ks)
			return fmt.Sprint(steps, err, ks) + t.Newick()
		case 9:
			s, err := nexus.WriteNexus(chanOf(mustParse(text), mustParse(text)), true)
			return s + fmt.Sprint(err)
		case 10:
			t := mustParse(text)
			nm := map[string]string{}
			id := 1
			err := t.RenameAuto(true, true, 8, &id, nm)
			return t.Newick() + fmt.Sprint(err)
		case 13:
			t := mustParse(text)
			tips := m.SortedTips()
			rr := rand.New(rand.NewSource(seed))
			og := []string{tips[rr.Intn(len(tips))], tips[rr.Intn(len(tips))], tips[rr.Intn(len(tips))]}
			err := t.RerootOutGroup(false, false, og...)
			return fmt.Sprint(og, err) + t.Newick()
		case 12:
			t := mustParse(text)
			st := map[string]string{}
			rr := rand.New(rand.NewSource(seed))
			for _, n := range m.SortedTips() {
				st[n] = string(rune('A' + rr.Intn(3)))
			}
			res, steps, err := acr.ParsimonyAcr(t, st, []int{acr.ALGO_DOWNPASS, acr.ALGO_DELTRAN, acr.ALGO_ACCTRAN}[int(seed%3)], true)
			var ks []string
			for k, v := range res {
				ks = append(ks, k+"="+v)
			}
			sort.Strings(ks)
			return fmt.Sprint(steps, err, ks) + t.Newick()
		default:
			t := mustParse(text)
			steps, err := asr.ParsimonyAsr(t, mkAlign(false), asr.ALGO_ACCTRAN, true)
			return fmt.Sprint(steps, err) + t.Newick()
		}
	}
	first := call()
	o.Ev("library_calls", 1)
	for i := 1; i < R; i++ {
		again := call()
		o.Ev("library_calls", 1)
		if !o.Check(again == first, "library_result_differs", fmt.Sprintf("%s: call 1 and call %d on equal inputs after re-seeding differ: %s", name, i+1, firstDiff(first, again)), o.Sample, "fn", name) {
			return
		}
	}
}

func treeText2(t *tree.Tree, err error) string {
	if err != nil || t == nil {
		return "error: " + fmt.Sprint(err)
	}
	return t.Newick()
}
