package props

import (
	"fmt"
	"math/rand"
	"os"
	"path/filepath"
	"regexp"
	"sort"
	"strings"

	"verif/gen"
	"verif/ref"
)

// cmdTmpl is one command line of the shipped binary that works offline on generated inputs.
// Placeholders {name} in args are replaced by the path of the input file of that name; {out:x}
// by the path of an output file x whose bytes are compared too; Stdin names an input fed on stdin.
type cmdTmpl struct {
	Name     string
	Args     []string
	Stdin    string
	Seeded   bool // consumes the global random source: --seed is given
	Threaded bool // has a -t variant whose per-tree record lines may come in any order
	IDCol    int  // column (tab separated) of the tree id in per-tree records when Threaded (-1: whole output is one record)
}

// cmdInputs are the input files of one case.
type cmdInputs struct {
	dir   string
	files map[string]string // name -> content
}

func (in *cmdInputs) path(name string) string { return filepath.Join(in.dir, name) }

func (in *cmdInputs) write() {
	for n, s := range in.files {
		if err := os.WriteFile(in.path(n), []byte(s), 0o644); err != nil {
			panic(err)
		}
	}
}

// makeInputs generates a coherent family of inputs: maps that feed an output have >= 12 entries.
func makeInputs(r *rand.Rand, dir string, ntax int) *cmdInputs {
	if ntax < 14 {
		ntax = 14
	}
	in := &cmdInputs{dir: dir, files: map[string]string{}}
	names := make([]string, ntax)
	for i := range names {
		names[i] = fmt.Sprintf("sp%02d_%c", i, 'a'+rune(r.Intn(26)))
	}
	mk := func(rootDeg int, multi float64, innerNames bool) *ref.Tree {
		m := gen.Tree(r, gen.Opts{N: ntax, Shape: gen.Pick(r, "random", "random", "balanced"), RootDeg: rootDeg, MultiP: multi, Lens: "all", LenCls: "dec",
			SupP: 0.8, SupCls: "unit"})
		p := r.Perm(ntax)
		for j, tp := range modelTips(m) {
			tp.Name = names[p[j]]
		}
		if innerNames {
			k := 0
			for _, nd := range allNodes(m) {
				if !nd.IsTip() {
					nd.Sup, nd.PVal = ref.Num{}, ref.Num{}
					nd.Name = fmt.Sprintf("node%02d", k)
					k++
				}
			}
		}
		return m
	}
	T := mk(3, 0.15, false)
	in.files["t.nw"] = T.Newick() + "\n"
	in.files["t2.nw"] = mk(3, 0, false).Newick() + "\n"
	TR := mk(2, 0, true)
	in.files["tr.nw"] = TR.Newick() + "\n"
	var boots []string
	base := mk(3, 0, false).Newick()
	for i := 0; i < 12; i++ {
		boots = append(boots, perturbedTree(r, base, r.Intn(5), false, "dec"))
	}
	in.files["ts.nw"] = strings.Join(boots, "\n") + "\n"
	in.files["ref.nw"] = perturbedTree(r, base, 1, false, "dec") + "\n"
	// a tree sharing only half of the taxa + 14 others
	other := mk(3, 0, false)
	for j, tp := range modelTips(other) {
		if j%2 == 0 {
			tp.Name = fmt.Sprintf("zz%02d_%c", j, 'a'+rune(r.Intn(26)))
		}
	}
	in.files["tother.nw"] = other.Newick() + "\n"
	var tipl []string
	for i := 0; i < 16; i++ {
		tipl = append(tipl, fmt.Sprintf("absent%02d_%c", i, 'a'+rune(r.Intn(26))))
	}
	tipl = append(tipl, names[:ntax/2]...)
	r.Shuffle(len(tipl), func(i, j int) { tipl[i], tipl[j] = tipl[j], tipl[i] })
	in.files["tips.txt"] = strings.Join(tipl, "\n") + "\n"
	// an outgroup that is a clade of T (not containing everything)
	var clade []string
	for _, nd := range allNodes(T)[1:] {
		if !nd.IsTip() {
			tn := nodeTipNames(nd)
			if len(tn) >= 3 && len(tn) <= ntax-3 {
				clade = tn
				break
			}
		}
	}
	if clade == nil {
		clade = []string{modelTips(T)[0].Name, modelTips(T)[1].Name, modelTips(T)[2].Name}
	}
	// a non-monophyletic outgroup: one tip from each of two different children of the root (plus a third one)
	var spread []string
	for _, ch := range T.Root.Children {
		tn := nodeTipNames(ch)
		spread = append(spread, tn[r.Intn(len(tn))])
	}
	if len(spread) > 3 {
		spread = spread[:3]
	}
	in.files["nonmono.args"] = strings.Join(spread, "\n")
	in.files["og.txt"] = strings.Join(clade, "\n") + "\n"
	in.files["og.args"] = strings.Join(clade, "\n")
	var mp []string
	for i, n := range names {
		mp = append(mp, fmt.Sprintf("%s\tren%02d", n, i))
	}
	in.files["map.txt"] = strings.Join(mp, "\n") + "\n"
	// states for acr
	var st []string
	for _, n := range names {
		st = append(st, n+"\t"+gen.Pick(r, "A", "B", "C", "A"))
	}
	in.files["states.txt"] = strings.Join(st, "\n") + "\n"
	// alignments: nucleotides with IUPAC codes; protein with X
	L := 24
	nt := "ACGTACGTACGTRYN-"
	aa := "ARNDCQEGHILKMFPSTWYVX"
	var fa, fp strings.Builder
	for _, n := range names {
		fa.WriteString(">" + n + "\n")
		fp.WriteString(">" + n + "\n")
		for j := 0; j < L; j++ {
			fa.WriteByte(nt[r.Intn(len(nt))])
			if r.Intn(3) == 0 {
				fp.WriteByte('X')
			} else {
				fp.WriteByte(aa[r.Intn(len(aa))])
			}
		}
		fa.WriteString("\n")
		fp.WriteString("\n")
	}
	in.files["aln.fa"] = fa.String()
	in.files["alnp.fa"] = fp.String()
	// full (tips + inner nodes) alignment for compute mutations on tr.nw
	var fm strings.Builder
	seqs := map[*ref.Node]string{}
	var evolve func(nd *ref.Node, parent string)
	evolve = func(nd *ref.Node, parent string) {
		b := []byte(parent)
		for j := range b {
			if r.Intn(4) == 0 {
				b[j] = "ACGT"[r.Intn(4)]
			}
		}
		seqs[nd] = string(b)
		fm.WriteString(">" + nd.Name + "\n" + string(b) + "\n")
		for _, c := range nd.Children {
			evolve(c, string(b))
		}
	}
	rootSeq := make([]byte, L)
	for j := range rootSeq {
		rootSeq[j] = "ACGT"[r.Intn(4)]
	}
	evolve(TR.Root, string(rootSeq))
	in.files["alnfull.fa"] = fm.String()
	// a tree to graft / merge with (disjoint tips), rooted
	g := gen.Tree(r, gen.Opts{N: 5, Shape: "random", RootDeg: 2, Lens: "all", LenCls: "dec"})
	for j, tp := range modelTips(g) {
		tp.Name = fmt.Sprintf("new%02d", j)
	}
	in.files["graft.nw"] = g.Newick() + "\n"
	// the first tree again, with numbers as other programs write them and a line break inside the tree
	loose := regexp.MustCompile(`:([0-9]+)([,)])`).ReplaceAllString(in.files["t.nw"], ":$1.0$2")
	loose = regexp.MustCompile(`:0\.([0-9])([0-9]*)([,)])`).ReplaceAllString(loose, ":$1.${2}e-1$3")
	if k := strings.Index(loose, ","); k > 0 {
		loose = loose[:k+1] + "\n " + loose[k+1:]
	}
	in.files["tloose.nw"] = loose
	in.files["tipname.txt"] = names[0]
	in.files["innername.txt"] = "node01"
	// identical-tip groups for repopulate
	var grp []string
	for i := 0; i < 4; i++ {
		grp = append(grp, fmt.Sprintf("%s,dup%02d", names[i], i))
	}
	in.files["groups.txt"] = strings.Join(grp, "\n") + "\n"
	// annotation file for annotate -m
	var ann []string
	for i := 0; i+2 < ntax && i < 9; i += 3 {
		ann = append(ann, fmt.Sprintf("lab%d:%s,%s", i, names[i], names[i+1]))
	}
	in.files["annot.txt"] = strings.Join(ann, "\n") + "\n"
	in.files["brids.txt"] = "3\n5\n"
	// tips named 1..n (the Nexus translate table then maps "1"->"0", "2"->"1", ...: new names overlap old names)
	tn := mk(3, 0.1, false)
	for j, tp := range modelTips(tn) {
		tp.Name = fmt.Sprint(j + 1)
	}
	tn2 := mk(3, 0, false)
	pp := r.Perm(ntax)
	for j, tp := range modelTips(tn2) {
		tp.Name = fmt.Sprint(pp[j] + 1)
	}
	in.files["tnum.nw"] = tn.Newick() + "\n" + tn2.Newick() + "\n"
	// a rename map that is a chain: every new name is the old name of the next entry
	var chain []string
	sortedNames := append([]string(nil), names...)
	sort.Strings(sortedNames)
	for i, n := range sortedNames {
		nx := "chain_end"
		if i+1 < len(sortedNames) {
			nx = sortedNames[i+1]
		}
		chain = append(chain, n+"\t"+nx)
	}
	in.files["chain.txt"] = strings.Join(chain, "\n") + "\n"
	// Newick content under file names that suggest another format (the format option, not the name, decides)
	for _, ext := range []string{"nex", "nexus", "xml", "phyloxml", "json", "txt"} {
		in.files["tsnewick."+ext] = in.files["ts.nw"]
	}
	sort.Strings(names)
	return in
}

// cmdTable lists the commands that run offline. Every template is complete: inputs by file, so that the only
// things left to defaults are the options under test.
var cmdTable = []cmdTmpl{
	{Name: "generate uniformtree", Args: []string{"generate", "uniformtree", "-l", "12", "-n", "3"}, Seeded: true},
	{Name: "generate uniformtree rooted", Args: []string{"generate", "uniformtree", "-l", "9", "-r"}, Seeded: true},
	{Name: "generate yuletree", Args: []string{"generate", "yuletree", "-l", "12", "-n", "2"}, Seeded: true},
	{Name: "generate caterpillartree", Args: []string{"generate", "caterpillartree", "-l", "8"}, Seeded: true},
	{Name: "generate balancedtree", Args: []string{"generate", "balancedtree", "-d", "3"}, Seeded: true},
	{Name: "generate startree", Args: []string{"generate", "startree", "-l", "6"}, Seeded: true},
	{Name: "generate topologies", Args: []string{"generate", "topologies", "-l", "5"}},
	{Name: "prune names", Args: []string{"prune", "-i", "{t.nw}", "{@og.args}"}},
	{Name: "prune tipfile revert", Args: []string{"prune", "-i", "{t.nw}", "-f", "{og.txt}", "-r"}},
	{Name: "prune random", Args: []string{"prune", "-i", "{t.nw}", "--random", "5"}, Seeded: true},
	{Name: "prune comp", Args: []string{"prune", "-i", "{t.nw}", "-c", "{tother.nw}"}},
	{Name: "sample", Args: []string{"sample", "-i", "{ts.nw}", "-n", "4"}, Seeded: true},
	{Name: "sample replace", Args: []string{"sample", "-i", "{ts.nw}", "-n", "20", "--replace"}, Seeded: true},
	{Name: "shuffletips", Args: []string{"shuffletips", "-i", "{t.nw}"}, Seeded: true},
	{Name: "rotate rand", Args: []string{"rotate", "rand", "-i", "{t.nw}"}, Seeded: true},
	{Name: "rotate sort", Args: []string{"rotate", "sort", "-i", "{t.nw}"}},
	{Name: "resolve", Args: []string{"resolve", "-i", "{t.nw}"}, Seeded: true},
	{Name: "collapse length", Args: []string{"collapse", "length", "-i", "{t.nw}", "-l", "1.5"}},
	{Name: "collapse support", Args: []string{"collapse", "support", "-i", "{t.nw}", "-s", "0.6"}},
	{Name: "collapse depth", Args: []string{"collapse", "depth", "-i", "{t.nw}", "-m", "2", "-M", "3"}},
	{Name: "collapse single", Args: []string{"collapse", "single", "-i", "{tr.nw}"}},
	{Name: "collapse clade", Args: []string{"collapse", "clade", "-i", "{t.nw}", "-l", "{og.txt}", "-n", "newtip"}},
	{Name: "collapse name", Args: []string{"collapse", "name", "-i", "{t.nw}", "-b", "{brids.txt}", "--id"}},
	{Name: "reroot midpoint", Args: []string{"reroot", "midpoint", "-i", "{t.nw}"}},
	{Name: "reroot outgroup", Args: []string{"reroot", "outgroup", "-i", "{t.nw}", "-l", "{og.txt}"}},
	{Name: "reroot outgroup non-monophyletic", Args: []string{"reroot", "outgroup", "-i", "{t.nw}", "{@nonmono.args}"}},
	{Name: "reroot outgroup non-monophyletic remove", Args: []string{"reroot", "outgroup", "-i", "{t2.nw}", "-r", "{@nonmono.args}"}},
	{Name: "unroot", Args: []string{"unroot", "-i", "{tr.nw}"}},
	{Name: "brlen add", Args: []string{"brlen", "add", "-i", "{t.nw}", "-l", "0.25"}},
	{Name: "brlen clear", Args: []string{"brlen", "clear", "-i", "{t.nw}"}},
	{Name: "brlen cut", Args: []string{"brlen", "cut", "-i", "{t.nw}", "-l", "1.0"}},
	{Name: "brlen round", Args: []string{"brlen", "round", "-i", "{t.nw}"}},
	{Name: "brlen scale", Args: []string{"brlen", "scale", "-i", "{t.nw}", "-f", "3"}},
	{Name: "brlen set", Args: []string{"brlen", "set", "-i", "{t.nw}", "-l", "0.5"}},
	{Name: "brlen setmin", Args: []string{"brlen", "setmin", "-i", "{t.nw}", "-l", "1.0"}},
	{Name: "brlen setrand", Args: []string{"brlen", "setrand", "-i", "{t.nw}"}, Seeded: true},
	{Name: "support clear", Args: []string{"support", "clear", "-i", "{t.nw}"}},
	{Name: "support round", Args: []string{"support", "round", "-i", "{t.nw}"}},
	{Name: "support scale", Args: []string{"support", "scale", "-i", "{t.nw}", "-f", "100"}},
	{Name: "support setrand", Args: []string{"support", "setrand", "-i", "{t.nw}"}, Seeded: true},
	{Name: "compute consensus", Args: []string{"compute", "consensus", "-i", "{ts.nw}"}},
	{Name: "compute bipartitiontree", Args: []string{"compute", "bipartitiontree", "-i", "{t.nw}", "{@og.args}"}},
	{Name: "compute edgetrees", Args: []string{"compute", "edgetrees", "-i", "{t.nw}"}},
	{Name: "compute support fbp", Args: []string{"compute", "support", "fbp", "-i", "{ref.nw}", "-b", "{ts.nw}", "--silent"}, Threaded: true, IDCol: -1},
	{Name: "compute support tbe", Args: []string{"compute", "support", "tbe", "-i", "{ref.nw}", "-b", "{ts.nw}", "--silent"}, Threaded: true, IDCol: -1},
	{Name: "compute support tbe moved", Args: []string{"compute", "support", "tbe", "-i", "{ref.nw}", "-b", "{ts.nw}", "--silent", "--moved-taxa", "--per-branches", "-l", "{out:tbe.log}"}},
	{Name: "compute support classical", Args: []string{"compute", "support", "classical", "-i", "{ref.nw}", "-b", "{ts.nw}", "--silent"}, Threaded: true, IDCol: -1},
	{Name: "compute support booster", Args: []string{"compute", "support", "booster", "-i", "{ref.nw}", "-b", "{ts.nw}", "--silent"}, Threaded: true, IDCol: -1},
	{Name: "compute mutations", Args: []string{"compute", "mutations", "-i", "{tr.nw}", "-a", "{alnfull.fa}"}},
	{Name: "compute mutations eems", Args: []string{"compute", "mutations", "-i", "{tr.nw}", "-a", "{alnfull.fa}", "--eems"}},
	{Name: "compare trees", Args: []string{"compare", "trees", "-i", "{ref.nw}", "-c", "{ts.nw}"}, Threaded: true, IDCol: 0},
	{Name: "compare trees rf", Args: []string{"compare", "trees", "-i", "{ref.nw}", "-c", "{ts.nw}", "--rf"}, Threaded: true, IDCol: -2},
	{Name: "compare trees weighted", Args: []string{"compare", "trees", "-i", "{ref.nw}", "-c", "{ts.nw}", "--weighted"}, Threaded: true, IDCol: 0},
	{Name: "compare trees tips", Args: []string{"compare", "trees", "-i", "{ref.nw}", "-c", "{ts.nw}", "-l"}, Threaded: true, IDCol: 0},
	{Name: "compare edges", Args: []string{"compare", "edges", "-i", "{ref.nw}", "-c", "{t2.nw}"}},
	{Name: "compare edges transfer", Args: []string{"compare", "edges", "-i", "{ref.nw}", "-c", "{t2.nw}", "--transfer-dist", "--moved-taxa"}},
	{Name: "compare tips tree", Args: []string{"compare", "tips", "-i", "{t.nw}", "-c", "{tother.nw}"}},
	{Name: "compare tips file", Args: []string{"compare", "tips", "-i", "{t.nw}", "-f", "{tips.txt}"}},
	{Name: "matrix", Args: []string{"matrix", "-i", "{t.nw}"}},
	{Name: "matrix boot", Args: []string{"matrix", "-i", "{t.nw}", "-m", "boot"}},
	{Name: "matrix avg", Args: []string{"matrix", "-i", "{ts.nw}", "--avg"}},
	{Name: "stats", Args: []string{"stats", "-i", "{ts.nw}"}},
	{Name: "stats edges", Args: []string{"stats", "edges", "-i", "{t.nw}"}},
	{Name: "stats nodes", Args: []string{"stats", "nodes", "-i", "{t.nw}"}},
	{Name: "stats rooted", Args: []string{"stats", "rooted", "-i", "{tr.nw}"}},
	{Name: "stats splits", Args: []string{"stats", "splits", "-i", "{t.nw}"}},
	{Name: "stats tips", Args: []string{"stats", "tips", "-i", "{t.nw}"}},
	{Name: "stats monophyletic", Args: []string{"stats", "monophyletic", "-i", "{t.nw}", "-l", "{og.txt}"}},
	{Name: "rename map", Args: []string{"rename", "-i", "{t.nw}", "-m", "{map.txt}"}},
	{Name: "rename auto", Args: []string{"rename", "-i", "{t.nw}", "--auto", "-m", "{out:automap.txt}"}},
	{Name: "rename regexp", Args: []string{"rename", "-i", "{t.nw}", "-e", "sp(\\d+)_", "-b", "taxon$1-", "-m", "{out:remap.txt}"}},
	{Name: "rename chain map", Args: []string{"rename", "-i", "{t.nw}", "-m", "{chain.txt}"}},
	{Name: "reformat nexus translate numeric tips", Args: []string{"reformat", "nexus", "-i", "{tnum.nw}", "--translate"}},
	{Name: "reformat newick", Args: []string{"reformat", "newick", "-i", "{ts.nw}"}},
	{Name: "reformat nexus", Args: []string{"reformat", "nexus", "-i", "{ts.nw}"}},
	{Name: "reformat nexus translate", Args: []string{"reformat", "nexus", "-i", "{ts.nw}", "--translate"}},
	{Name: "reformat phyloxml", Args: []string{"reformat", "phyloxml", "-i", "{ts.nw}"}},
	{Name: "acr", Args: []string{"acr", "-i", "{tr.nw}", "--states", "{states.txt}", "--out-states", "{out:acrstates.txt}", "--out-steps", "{out:acrsteps.txt}"}},
	{Name: "acr downpass", Args: []string{"acr", "-i", "{t.nw}", "--states", "{states.txt}", "--algo", "downpass", "--out-states", "{out:acrstates.txt}"}},
	{Name: "acr random-resolve", Args: []string{"acr", "-i", "{t.nw}", "--states", "{states.txt}", "--algo", "downpass", "--random-resolve", "--out-states", "{out:acrstates.txt}"}, Seeded: true},
	{Name: "acr random-resolve deltran", Args: []string{"acr", "-i", "{tr.nw}", "--states", "{states.txt}", "--algo", "deltran", "--random-resolve"}, Seeded: true},
	{Name: "asr random-resolve", Args: []string{"asr", "-i", "{tr.nw}", "-a", "{aln.fa}", "--random-resolve", "--log", "{out:asr.log}"}, Seeded: true},
	{Name: "asr", Args: []string{"asr", "-i", "{tr.nw}", "-a", "{aln.fa}", "--log", "{out:asr.log}"}},
	{Name: "asr protein", Args: []string{"asr", "-i", "{tr.nw}", "-a", "{alnp.fa}", "--algo", "downpass", "--log", "{out:asr.log}"}},
	{Name: "annotate tree", Args: []string{"annotate", "-i", "{t.nw}", "-c", "{tr.nw}"}},
	{Name: "annotate stdin", Args: []string{"annotate", "-i", "{t.nw}"}, Stdin: "tr.nw"},
	{Name: "annotate map", Args: []string{"annotate", "-i", "{t.nw}", "-m", "{annot.txt}"}},
	{Name: "merge", Args: []string{"merge", "-i", "{tr.nw}", "-c", "{graft.nw}"}},
	{Name: "merge stdin", Args: []string{"merge", "-i", "{tr.nw}"}, Stdin: "graft.nw"},
	{Name: "graft", Args: []string{"graft", "-i", "{t.nw}", "-c", "{graft.nw}", "-l", "{@tipname.txt}"}},
	{Name: "subtree", Args: []string{"subtree", "-i", "{tr.nw}", "-n", "{@innername.txt}"}},
	{Name: "nni", Args: []string{"nni", "-i", "{t2.nw}"}},
	{Name: "divide", Args: []string{"divide", "-i", "{ts.nw}"}},
	{Name: "divide prefix", Args: []string{"divide", "-i", "{ts.nw}", "-o", "{outprefix:div}"}},
	{Name: "comment clear", Args: []string{"comment", "clear", "-i", "{t.nw}"}},
	{Name: "comment transfer", Args: []string{"comment", "transfer", "-i", "{tr.nw}"}},
	{Name: "labels", Args: []string{"labels", "-i", "{tr.nw}", "--internal"}},
	{Name: "ltt", Args: []string{"ltt", "-i", "{tr.nw}"}},
	{Name: "draw text", Args: []string{"draw", "text", "-i", "{t.nw}", "-w", "60"}},
	{Name: "draw svg", Args: []string{"draw", "svg", "-i", "{t.nw}"}},
	{Name: "draw cyjs", Args: []string{"draw", "cyjs", "-i", "{t.nw}"}},
	{Name: "repopulate", Args: []string{"repopulate", "-i", "{t.nw}", "-g", "{groups.txt}"}},
	{Name: "stats on .nex name", Args: []string{"stats", "-i", "{tsnewick.nex}"}},
	{Name: "stats on .xml name", Args: []string{"stats", "-i", "{tsnewick.xml}"}},
	{Name: "reformat newick on .nexus name", Args: []string{"reformat", "newick", "-i", "{tsnewick.nexus}"}},
	{Name: "reformat newick on .phyloxml name", Args: []string{"reformat", "newick", "-i", "{tsnewick.phyloxml}"}},
	{Name: "compute consensus on .json name", Args: []string{"compute", "consensus", "-i", "{tsnewick.json}"}},
	{Name: "sample on .txt name", Args: []string{"sample", "-i", "{tsnewick.txt}", "-n", "3"}, Seeded: true},
	{Name: "stdin input", Args: []string{"stats", "tips"}, Stdin: "t.nw"},
	// no option at all, input on standard input written the way other programs write numbers (1.0, 2.00, 1e-1, a line break)
	{Name: "prune, no option at all", Args: []string{"prune"}, Stdin: "tloose.nw"},
	{Name: "unroot, no option at all", Args: []string{"unroot"}, Stdin: "tloose.nw"},
	{Name: "reformat newick, no option at all", Args: []string{"reformat", "newick"}, Stdin: "tloose.nw"},
	{Name: "rotate sort, no option at all", Args: []string{"rotate", "sort"}, Stdin: "tloose.nw"},
}

// expand builds the argument list of one run; outDir receives the {out:x} files.
func (t *cmdTmpl) expand(in *cmdInputs, outDir string) (args []string, outs []string) {
	for _, a := range t.Args {
		switch {
		case strings.HasPrefix(a, "{@") && strings.HasSuffix(a, "}"):
			// the lines of an input become separate positional arguments
			for _, l := range strings.Split(strings.TrimSpace(in.files[a[2:len(a)-1]]), "\n") {
				args = append(args, l)
			}
		case strings.HasPrefix(a, "{out:") && strings.HasSuffix(a, "}"):
			p := filepath.Join(outDir, a[5:len(a)-1])
			outs = append(outs, p)
			args = append(args, p)
		case strings.HasPrefix(a, "{outprefix:") && strings.HasSuffix(a, "}"):
			args = append(args, filepath.Join(outDir, a[11:len(a)-1]))
		case strings.HasPrefix(a, "{") && strings.HasSuffix(a, "}"):
			args = append(args, in.path(a[1:len(a)-1]))
		default:
			args = append(args, a)
		}
	}
	return
}

// runTmpl executes one template in a fresh process and returns everything it produced:
// stdout, exit status and the bytes of every file found in outDir afterwards.
type runOut struct {
	res   cliRes
	files map[string]string
}

var logDateLine = regexp.MustCompile(`(?m)^(Date|Start|End)         *: .*$`)

// tmplPrefix: words placed BEFORE the sub-command words of the next runTmpl calls (global options given first).
var tmplPrefix []string

func runTmpl(c *Ctx, t *cmdTmpl, in *cmdInputs, extra []string, tag string) runOut {
	outDir := filepath.Join(in.dir, "out-"+tag)
	_ = os.RemoveAll(outDir)
	_ = os.MkdirAll(outDir, 0o755)
	args, _ := t.expand(in, outDir)
	args = append(append(append([]string{}, tmplPrefix...), args...), extra...)
	stdin := ""
	if t.Stdin != "" {
		stdin = in.files[t.Stdin]
	}
	old := c.Tmp
	c.Tmp = outDir // the child's working directory: files written by relative default names land here
	res := runCLI(c, stdin, args...)
	c.Tmp = old
	o := runOut{res: res, files: map[string]string{}}
	ents, _ := os.ReadDir(outDir)
	for _, e := range ents {
		if !e.IsDir() {
			b, _ := os.ReadFile(filepath.Join(outDir, e.Name()))
			// support logs carry the time of the run (Date / Start / End lines, minute resolution): not a result
			o.files[e.Name()] = logDateLine.ReplaceAllString(string(b), "$1 : <time of the run>")
		}
	}
	_ = os.RemoveAll(outDir)
	return o
}

// diffRuns compares two runs byte for byte ("" = equal). Paths of the per-run output directory inside the
// outputs are normalised away by the caller through identical tags where needed.
func diffRuns(a, b runOut) string {
	if a.res.Exit != b.res.Exit {
		return fmt.Sprintf("exit status %d vs %d (stderr %q vs %q)", a.res.Exit, b.res.Exit, Trunc(a.res.Stderr, 200), Trunc(b.res.Stderr, 200))
	}
	if a.res.Stdout != b.res.Stdout {
		return "stdout differs: " + firstDiff(a.res.Stdout, b.res.Stdout)
	}
	if len(a.files) != len(b.files) {
		return fmt.Sprintf("%d output files vs %d (%v vs %v)", len(a.files), len(b.files), keysOf(a.files), keysOf(b.files))
	}
	for n, s := range a.files {
		s2, ok := b.files[n]
		if !ok {
			return "output file " + n + " missing in one run"
		}
		if s != s2 {
			return "output file " + n + " differs: " + firstDiff(s, s2)
		}
	}
	return ""
}

func keysOf(m map[string]string) []string {
	var k []string
	for n := range m {
		k = append(k, n)
	}
	sort.Strings(k)
	return k
}

func firstDiff(a, b string) string {
	la, lb := strings.Split(a, "\n"), strings.Split(b, "\n")
	for i := 0; i < len(la) || i < len(lb); i++ {
		var x, y string
		if i < len(la) {
			x = la[i]
		}
		if i < len(lb) {
			y = lb[i]
		}
		if x != y {
			return fmt.Sprintf("line %d: %q vs %q", i+1, Trunc(x, 160), Trunc(y, 160))
		}
	}
	return "(no line differs?)"
}
