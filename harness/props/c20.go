package props

import (
	"fmt"
	"math"
	"math/rand"
	"os"
	"path/filepath"
	"sort"
	"strings"

	gcmd "github.com/evolbioinfo/gotree/cmd"
	"github.com/evolbioinfo/gotree/io/phyloxml"
	"github.com/evolbioinfo/gotree/tree"

	"verif/ref"
)

// ---- exact binomial bounds ---------------------------------------------------------------------

func logBinomPMF(n, k int, p float64) float64 {
	if p <= 0 {
		if k == 0 {
			return 0
		}
		return math.Inf(-1)
	}
	if p >= 1 {
		if k == n {
			return 0
		}
		return math.Inf(-1)
	}
	lg := func(x int) float64 { v, _ := math.Lgamma(float64(x) + 1); return v }
	return lg(n) - lg(k) - lg(n-k) + float64(k)*math.Log(p) + float64(n-k)*math.Log1p(-p)
}

// binomTwoSided returns min(1, 2*min(P(X<=k), P(X>=k))) for X ~ Bin(n,p), summed exactly in log space.
func binomTwoSided(n, k int, p float64) float64 {
	tail := func(from, step int) float64 {
		s := 0.0
		first := math.Exp(logBinomPMF(n, from, p))
		for x := from; x >= 0 && x <= n; x += step {
			t := math.Exp(logBinomPMF(n, x, p))
			s += t
			if t < 1e-40 || (first > 0 && t < first*1e-18) {
				if (step > 0 && float64(x) > float64(n)*p) || (step < 0 && float64(x) < float64(n)*p) {
					break
				}
			}
		}
		return s
	}
	lo := tail(k, -1)
	hi := tail(k, +1)
	v := 2 * math.Min(lo, hi)
	if v > 1 {
		v = 1
	}
	return v
}

// uniformityTest checks observed counts against the uniform hypothesis over cells.
func uniformityTest(o *Obs, what string, counts map[string]int, cells []string, n int, witness string, tag ...string) {
	alpha := 1e-9 / float64(len(cells))
	p := 1.0 / float64(len(cells))
	known := map[string]bool{}
	for _, c := range cells {
		known[c] = true
	}
	for c := range counts {
		if !known[c] {
			o.Fail("outcome_outside_support", fmt.Sprintf("%s: outcome %q is not one of the %d possible outcomes", what, Trunc(c, 120), len(cells)), witness, tag...)
			return
		}
	}
	exp := float64(n) * p
	worst, worstP := "", 1.0
	for _, c := range cells {
		k := counts[c]
		o.Asserts++
		if k == 0 && exp >= 50 {
			o.Fail("outcome_never_drawn", fmt.Sprintf("%s: outcome %q was never drawn in %d draws (expected about %.0f)", what, Trunc(c, 120), n, exp), witness, tag...)
			return
		}
		pv := binomTwoSided(n, k, p)
		if pv < worstP {
			worst, worstP = c, pv
		}
	}
	o.Asserts++
	if worstP < alpha {
		o.Fail("not_uniform", fmt.Sprintf("%s: outcome %q drawn %d times in %d draws over %d equiprobable outcomes (expected %.1f); exact two-sided binomial tail %.3g < %.3g",
			what, Trunc(worst, 120), counts[worst], n, len(cells), exp, worstP, alpha), witness, tag...)
	}
	o.Ev("draws", n)
	o.Ev("cells", len(cells))
	// resolution actually reached: smallest relative bias of one cell this run would have flagged (z ~ 6.8)
	res := 6.8 / math.Sqrt(exp)
	o.AddSet("list:resolution", fmt.Sprintf("%s: %d cells, %d draws, detectable relative bias >= %.0f%%", what, len(cells), n, 100*res))
}

// ---- in-process command execution ---------------------------------------------------------------

func inproc(args ...string) error {
	gcmd.RootCmd.SetArgs(args)
	return gcmd.RootCmd.Execute()
}

func subsets(items []string, k int) []string {
	var out []string
	var rec func(start int, cur []string)
	rec = func(start int, cur []string) {
		if len(cur) == k {
			out = append(out, strings.Join(cur, ","))
			return
		}
		for i := start; i < len(items); i++ {
			rec(i+1, append(append([]string{}, cur...), items[i]))
		}
	}
	rec(0, nil)
	return out
}

func perms(items []string) []string {
	var out []string
	var rec func(cur, rest []string)
	rec = func(cur, rest []string) {
		if len(rest) == 0 {
			out = append(out, strings.Join(cur, ","))
			return
		}
		for i := range rest {
			r2 := append(append([]string{}, rest[:i]...), rest[i+1:]...)
			rec(append(append([]string{}, cur...), rest[i]), r2)
		}
	}
	rec(nil, items)
	return out
}

func tuples(items []string, k int) []string {
	out := []string{""}
	for i := 0; i < k; i++ {
		var nx []string
		for _, p := range out {
			for _, it := range items {
				if p == "" {
					nx = append(nx, it)
				} else {
					nx = append(nx, p+","+it)
				}
			}
		}
		out = nx
	}
	return out
}

type c20Config struct {
	kind    string
	n, k    int
	flag    bool // --replace / -r / rooted
	lib     bool
	process bool // compare the shipped binary with the in-process run, seed by seed
}

var c20Configs []c20Config

func init() {
	for _, n := range []int{1, 2, 3, 4, 5, 8} {
		ks := map[int]bool{1: true, 2: true, n - 1: true, n: true, n + 2: true}
		var kl []int
		for k := range ks {
			if k >= 1 {
				kl = append(kl, k)
			}
		}
		sort.Ints(kl)
		for _, k := range kl {
			c20Configs = append(c20Configs, c20Config{kind: "sample", n: n, k: k})
			if k <= 3 && n >= 2 && intPow(n, k) <= 125 {
				c20Configs = append(c20Configs, c20Config{kind: "sample", n: n, k: k, flag: true})
			}
		}
	}
	for _, n := range []int{4, 5, 6, 8} {
		for _, k := range []int{1, 2, n - 3} {
			if k >= 1 && n-k >= 3 {
				c20Configs = append(c20Configs, c20Config{kind: "prune", n: n, k: k})
			}
		}
		for _, k := range []int{3, 4, n - 1} {
			if k >= 3 && k < n {
				c20Configs = append(c20Configs, c20Config{kind: "prune", n: n, k: k, flag: true})
			}
		}
	}
	// two tips: the smallest input there is; flag: a tree object with a past (indexed, then one tip grafted on a
	// branch without refreshing anything) handed to the library function
	c20Configs = append(c20Configs, c20Config{kind: "shuffletips", n: 2}, c20Config{kind: "shuffletips", n: 2, lib: true},
		c20Config{kind: "shuffletips", n: 3, lib: true, flag: true}, c20Config{kind: "shuffletips", n: 4, lib: true, flag: true})
	for _, n := range []int{3, 4} {
		c20Configs = append(c20Configs, c20Config{kind: "shuffletips", n: n}, c20Config{kind: "shuffletips", n: n, lib: true})
		c20Configs = append(c20Configs, c20Config{kind: "rotate", n: n}, c20Config{kind: "rotate", n: n, lib: true})
	}
	for _, n := range []int{4, 5, 6} {
		c20Configs = append(c20Configs, c20Config{kind: "uniformtree", n: n}, c20Config{kind: "uniformtree", n: n, lib: true})
	}
	for _, n := range []int{3, 4, 5} {
		c20Configs = append(c20Configs, c20Config{kind: "uniformtree", n: n, flag: true}, c20Config{kind: "uniformtree", n: n, flag: true, lib: true})
	}
	// the second tree of a two-tree file must be sampled like the first one; sampling from a PhyloXML file like from a Newick one
	c20Configs = append(c20Configs,
		c20Config{kind: "prune2", n: 5, k: 1}, c20Config{kind: "prune2", n: 6, k: 2}, c20Config{kind: "prune2", n: 6, k: 3, flag: true},
		c20Config{kind: "samplexml", n: 4, k: 1}, c20Config{kind: "samplexml", n: 5, k: 2}, c20Config{kind: "samplexml", n: 3, k: 2, flag: true},
		c20Config{kind: "samplenexus", n: 4, k: 1})
	// ties between the in-process figures and the shipped binary
	c20Configs = append(c20Configs,
		c20Config{kind: "sample", n: 3, k: 1, process: true}, c20Config{kind: "sample", n: 5, k: 2, flag: true, process: true},
		c20Config{kind: "prune", n: 6, k: 2, process: true}, c20Config{kind: "shuffletips", n: 4, process: true},
		c20Config{kind: "rotate", n: 4, process: true}, c20Config{kind: "uniformtree", n: 5, process: true}, c20Config{kind: "uniformtree", n: 4, flag: true, process: true})
	Register(&Prop{
		ID:       "C20",
		Chunk:    2,
		NeedsCLI: true,
		Count:    func(c *Ctx) int { return len(c20Configs) },
		Rule:     "case = one configuration and N seeds s = base+1..base+N: gotree sample -n k (with/without --replace) on n trees, n in {1,2,3,4,5,8}, k in {1,2,n-1,n,n+2}; gotree prune --random k (with/without -r) on 4..8 tips; gotree shuffletips (2, 3, 4 tips; library also on objects that were indexed before a tip was grafted), gotree rotate rand, gotree generate uniformtree (unrooted 4,5,6 and rooted 3,4,5 tips) executed in-process through cmd.RootCmd with every flag explicit, their library counterparts (ShuffleTips, RotateNeighbors, RandomUniformBinaryTree) directly, and seven configurations run through the shipped binary seed by seed and compared with the in-process outcome. Oracle: every outcome cell (tree subset / tuple, tip subset, permutation, labelled topology) against the uniform hypothesis with the exact two-sided binomial tail > 1e-9/#cells, every cell with expected count >= 50 seen; k >= n without replacement must return every tree. non-trivial = at least 2 outcome cells; distinct by configuration",
		Assumptions: []string{
			"distributions are taken over the seed; resolution (smallest relative bias that would have been flagged) is measured and listed per configuration in the evidence; smaller biases are not claimed",
			"false-alarm probability over the choice of VERIF_SEED <= 1e-9 per configuration; for a fixed VERIF_SEED the verdict is deterministic",
		},
		MinNontrivialFrac: 0.5,
		Run:               runC20,
	})
}

func intPow(a, b int) int {
	r := 1
	for i := 0; i < b; i++ {
		r *= a
	}
	return r
}

func binom(n, k int) int {
	if k < 0 || k > n {
		return 0
	}
	r := 1
	for i := 0; i < k; i++ {
		r = r * (n - i) / (i + 1)
	}
	return r
}

func runC20(c *Ctx, idx int, o *Obs) {
	cfg := c20Configs[idx]
	base := c.Seed*1000003 + int64(idx)*7919
	N := 5000
	if cfg.lib {
		N = 60000
	}
	if c.Thorough() {
		N *= 8
	}
	what := fmt.Sprintf("%s n=%d k=%d flag=%v lib=%v process=%v", cfg.kind, cfg.n, cfg.k, cfg.flag, cfg.lib, cfg.process)
	o.Class = cfg.kind
	o.Sample = what
	o.SetFP(what)
	c.Announce(what)
	tag := []string{"kind", cfg.kind, "flag", fmt.Sprint(cfg.flag)}
	in := filepath.Join(c.Tmp, "c20.in")
	out := filepath.Join(c.Tmp, "c20.out")

	// the draw function of the configuration: seed -> outcome
	var cells []string
	var draw func(seed int64, viaProcess bool) (string, error)
	run := func(viaProcess bool, args ...string) (string, error) {
		_ = os.Remove(out)
		if viaProcess {
			res := runCLI(c, "", args...)
			if res.Exit != 0 || res.Panic {
				return "", fmt.Errorf("gotree %s: %s", strings.Join(args, " "), res.brief())
			}
		} else if err := inproc(args...); err != nil {
			return "", err
		}
		b, err := os.ReadFile(out)
		return string(b), err
	}
	switch cfg.kind {
	case "sample":
		var lines, ids []string
		for i := 0; i < cfg.n; i++ {
			lines = append(lines, fmt.Sprintf("(a,b,(c,tree%d));", i))
			ids = append(ids, fmt.Sprint(i))
		}
		_ = os.WriteFile(in, []byte(strings.Join(lines, "\n")+"\n"), 0o644)
		if cfg.flag {
			cells = tuples(ids, cfg.k)
		} else if cfg.k >= cfg.n {
			cells = []string{strings.Join(ids, ",")}
		} else {
			cells = subsets(ids, cfg.k)
		}
		draw = func(seed int64, vp bool) (string, error) {
			s, err := run(vp, "sample", "-i", in, "-o", out, "-n", fmt.Sprint(cfg.k), fmt.Sprintf("--replace=%v", cfg.flag), "--seed", fmt.Sprint(seed), "--format", "newick", "-t", "1")
			if err != nil {
				return "", err
			}
			var got []string
			for _, l := range strings.Split(strings.TrimSpace(s), "\n") {
				i := strings.Index(l, "tree")
				if i < 0 {
					return "", fmt.Errorf("unexpected output line %q", l)
				}
				got = append(got, strings.TrimRight(l[i+4:], ");"))
			}
			if !cfg.flag {
				sort.Strings(got)
			}
			return strings.Join(got, ","), nil
		}
	case "samplexml", "samplenexus":
		var ids []string
		var ts []*tree.Tree
		for i := 0; i < cfg.n; i++ {
			ts = append(ts, mustParse(fmt.Sprintf("(a,b,(c,tree%d));", i)))
			ids = append(ids, fmt.Sprint(i))
		}
		var doc string
		var err error
		fmtName := "phyloxml"
		if cfg.kind == "samplenexus" {
			fmtName = "nexus"
			_ = err
			doc = "#NEXUS\nBEGIN TREES;\n"
			for i := range ts {
				doc += fmt.Sprintf("  TREE t%d = (a,b,(c,tree%d));\n", i, i)
			}
			doc += "END;\n"
		} else if doc, err = phyloxml.WritePhyloXML(chanOf(ts...)); err != nil {
			o.Inconclusive = "cannot write the PhyloXML input: " + err.Error()
			return
		}
		_ = os.WriteFile(in, []byte(doc), 0o644)
		if cfg.flag {
			cells = tuples(ids, cfg.k)
		} else {
			cells = subsets(ids, cfg.k)
		}
		draw = func(seed int64, vp bool) (string, error) {
			s, err := run(vp, "sample", "-i", in, "-o", out, "-n", fmt.Sprint(cfg.k), fmt.Sprintf("--replace=%v", cfg.flag), "--seed", fmt.Sprint(seed), "--format", fmtName, "-t", "1")
			if err != nil {
				return "", err
			}
			var got []string
			for _, l := range strings.Split(strings.TrimSpace(s), "\n") {
				i := strings.Index(l, "tree")
				if i < 0 {
					return "", fmt.Errorf("unexpected output line %q", l)
				}
				got = append(got, strings.TrimRight(l[i+4:], ");"))
			}
			if !cfg.flag {
				sort.Strings(got)
			}
			return strings.Join(got, ","), nil
		}
	case "prune2":
		var tips []string
		for i := 0; i < cfg.n; i++ {
			tips = append(tips, fmt.Sprintf("t%d", i))
		}
		text := tips[0]
		for _, t := range tips[1:] {
			text = "(" + text + "," + t + ")"
		}
		// a first tree of another size, then the tree whose sampling is observed
		_ = os.WriteFile(in, []byte("((x0,x1),(x2,x3),(x4,(x5,x6)));\n"+text+";\n"), 0o644)
		keep := cfg.n - cfg.k
		if cfg.flag {
			keep = cfg.k
		}
		cells = subsets(tips, keep)
		draw = func(seed int64, vp bool) (string, error) {
			s, err := run(vp, "prune", "-i", in, "-o", out, "--random", fmt.Sprint(cfg.k), fmt.Sprintf("--revert=%v", cfg.flag), "--seed", fmt.Sprint(seed), "-c", "none", "-f", "none", "--format", "newick", "-t", "1")
			if err != nil {
				return "", err
			}
			lines := strings.Split(strings.TrimSpace(s), "\n")
			if len(lines) != 2 {
				return "", fmt.Errorf("%d output trees for 2 input trees", len(lines))
			}
			m, err := ref.ParseNewick(lines[1])
			if err != nil {
				return "", err
			}
			return strings.Join(m.SortedTips(), ","), nil
		}
	case "prune":
		var tips []string
		for i := 0; i < cfg.n; i++ {
			tips = append(tips, fmt.Sprintf("t%d", i))
		}
		// a caterpillar: every tip subset is distinguishable by the remaining names
		text := tips[0]
		for _, t := range tips[1:] {
			text = "(" + text + "," + t + ")"
		}
		_ = os.WriteFile(in, []byte(text+";\n"), 0o644)
		keep := cfg.n - cfg.k
		if cfg.flag {
			keep = cfg.k
		}
		cells = subsets(tips, keep)
		draw = func(seed int64, vp bool) (string, error) {
			s, err := run(vp, "prune", "-i", in, "-o", out, "--random", fmt.Sprint(cfg.k), fmt.Sprintf("--revert=%v", cfg.flag), "--seed", fmt.Sprint(seed), "-c", "none", "-f", "none", "--format", "newick", "-t", "1")
			if err != nil {
				return "", err
			}
			m, err := ref.ParseNewick(strings.TrimSpace(s))
			if err != nil {
				return "", err
			}
			return strings.Join(m.SortedTips(), ","), nil
		}
	case "shuffletips", "rotate":
		var tips []string
		for i := 0; i < cfg.n; i++ {
			tips = append(tips, fmt.Sprintf("t%d", i))
		}
		text := "(" + strings.Join(tips, ",") + ");"
		_ = os.WriteFile(in, []byte(text+"\n"), 0o644)
		cells = perms(tips)
		draw = func(seed int64, vp bool) (string, error) {
			var s string
			if cfg.lib {
				t := mustParse(text)
				if cfg.flag {
					// read with one tip less, indexed, the last tip grafted afterwards
					t = mustParse("(" + strings.Join(tips[:cfg.n-1], ",") + ");")
					if err := t.ReinitIndexes(); err != nil {
						return "", err
					}
					nt := t.NewNode()
					nt.SetName(tips[cfg.n-1])
					if _, _, _, err := t.GraftTipOnEdge(nt, t.Edges()[0]); err != nil {
						return "", err
					}
				}
				rand.Seed(seed)
				if cfg.kind == "shuffletips" {
					t.ShuffleTips()
				} else {
					t.Root().RotateNeighbors()
				}
				s = t.Newick()
			} else {
				var err error
				args := []string{"shuffletips"}
				if cfg.kind == "rotate" {
					args = []string{"rotate", "rand"}
				}
				if s, err = run(vp, append(args, "-i", in, "-o", out, "--seed", fmt.Sprint(seed), "--format", "newick", "-t", "1")...); err != nil {
					return "", err
				}
			}
			m, err := ref.ParseNewick(strings.TrimSpace(s))
			if err != nil {
				return "", err
			}
			return strings.Join(m.Tips(), ","), nil // order of the children of the root
		}
	case "uniformtree":
		var tips []string
		for i := 0; i < cfg.n; i++ {
			tips = append(tips, fmt.Sprintf("Tip%d", i))
		}
		all, err := tree.AllTopologies(cfg.n, cfg.flag, tips...)
		if err != nil {
			o.Inconclusive = "enumerator failed: " + err.Error()
			return
		}
		tx := ref.NewTaxa(tips)
		canon := func(text string) (string, error) {
			m, err := ref.ParseNewick(text)
			if err != nil {
				return "", err
			}
			for len(m.Root.Children) == 1 {
				m = &ref.Tree{Root: m.Root.Children[0]}
			}
			if cfg.flag {
				return m.CanonicalRooted(), nil
			}
			return m.CanonicalSplits(tx), nil
		}
		seen := map[string]bool{}
		for _, t := range all {
			k, err := canon(t.Newick())
			if err != nil {
				o.Inconclusive = "enumerator output unreadable"
				return
			}
			if !seen[k] {
				seen[k] = true
				cells = append(cells, k)
			}
		}
		want := dfact(2*cfg.n - 5)
		if cfg.flag {
			want = dfact(2*cfg.n - 3)
		}
		if len(cells) != want {
			o.Inconclusive = fmt.Sprintf("cell enumeration gave %d topologies, expected %d (see C16)", len(cells), want)
			return
		}
		draw = func(seed int64, vp bool) (string, error) {
			var s string
			if cfg.lib {
				rand.Seed(seed)
				t, err := tree.RandomUniformBinaryTree(cfg.n, cfg.flag)
				if err != nil {
					return "", err
				}
				s = t.Newick()
			} else {
				var err error
				if s, err = run(vp, "generate", "uniformtree", "-l", fmt.Sprint(cfg.n), fmt.Sprintf("--rooted=%v", cfg.flag), "-n", "1", "-o", out, "--seed", fmt.Sprint(seed), "--format", "newick", "-t", "1"); err != nil {
					return "", err
				}
			}
			return canon(strings.TrimSpace(s))
		}
	}
	o.Nontrivial = len(cells) >= 2

	if cfg.process {
		// the shipped binary against the in-process execution, seed by seed
		n := 150
		if c.Thorough() {
			n = 1000
		}
		counts := map[string]int{}
		for i := 1; i <= n; i++ {
			a, err := draw(base+int64(i), true)
			if err != nil {
				o.Fail("draw_failed", what+": "+err.Error(), what, tag...)
				return
			}
			b, err := draw(base+int64(i), false)
			if err != nil {
				o.Fail("draw_failed", what+": in-process: "+err.Error(), what, tag...)
				return
			}
			counts[a]++
			if !o.Check(a == b, "binary_differs_from_inprocess", fmt.Sprintf("%s seed %d: the gotree binary gives %q, the in-process command %q", what, base+int64(i), a, b), what, tag...) {
				return
			}
		}
		o.Ev("process_draws", n)
		o.Ev("distinct_outcomes", len(counts))
		return
	}

	counts := map[string]int{}
	for i := 1; i <= N; i++ {
		k, err := draw(base+int64(i), false)
		if err != nil {
			o.Fail("draw_failed", fmt.Sprintf("%s seed %d: %v", what, base+int64(i), err), what, tag...)
			return
		}
		counts[k]++
	}
	o.Ev("distinct_outcomes", len(counts))
	if len(cells) == 1 {
		// k >= n without replacement: every draw must return all the trees
		o.Check(counts[cells[0]] == N, "sample_all_expected", fmt.Sprintf("%s: %d of %d draws did not return every tree exactly once: %v", what, N-counts[cells[0]], N, keysOfInt(counts)), what, tag...)
		o.Ev("draws", N)
		return
	}
	uniformityTest(o, what, counts, cells, N, fmt.Sprintf("%s; seeds %d..%d; counts %v", what, base+1, base+int64(N), topCounts(counts)), tag...)
}

func keysOfInt(m map[string]int) []string {
	var k []string
	for s := range m {
		k = append(k, s)
	}
	sort.Strings(k)
	if len(k) > 10 {
		k = k[:10]
	}
	return k
}

func topCounts(m map[string]int) string {
	type kv struct {
		k string
		v int
	}
	var l []kv
	for k, v := range m {
		l = append(l, kv{k, v})
	}
	sort.Slice(l, func(i, j int) bool { return l[i].k < l[j].k })
	var b strings.Builder
	for i, x := range l {
		if i >= 30 {
			b.WriteString(" …")
			break
		}
		fmt.Fprintf(&b, " %s:%d", x.k, x.v)
	}
	return b.String()
}
