package props

import (
	"fmt"
	"math/rand"
	"os"
	"path/filepath"
	"runtime"
	"sort"
	"strings"
	"sync"

	"github.com/evolbioinfo/gotree/tree"

	"verif/mon"
	"verif/ref"
)

func init() {
	Register(&Prop{
		ID:       "C16",
		Chunk:    40,
		NeedsCLI: true,
		Count: func(c *Ctx) int {
			if c.Thorough() {
				return 24000
			}
			return 1600
		},
		Rule: "case = one generator call: {uniform, yule, caterpillar} x tip count in -1..64,100,1000 x rooted/unrooted x seed; balanced x depth -1..10; " +
			"star x tip count; the topology enumerator for n = 3..8 unrooted and 2..7 rooted (one more in thorough), with default and given tip names; " +
			"every 5th case through gotree generate; one library case in eight is repeated by 6 concurrent callers x 12 calls, each result judged alike. Monitors on the returned tree WITHOUT re-indexing it: structure walker, text-vs-structure, " +
			"tip count / unique names, degrees and rootedness, lengths >= 0, index monitor (bitsets, tip ranks, branch depths), node depths (distance to the closest tip), shape predicates " +
			"(cherries of a caterpillar, depth profile of a balanced tree, single inner node of a star), (2n-5)!!/(2n-3)!! distinct canonical " +
			"topologies; invalid sizes must give an error value / non-zero exit without panic. non-trivial = a valid size with >= 4 tips, or an " +
			"enumeration of >= 3 trees; distinct by (generator, size, rootedness, seed)",
		Assumptions: []string{
			"valid sizes: >= 3 tips for the insertion generators (a binary tree on 2 tips has no unrooted representation in gotree: for 2 tips an error is the expected answer), depth >= 1 rooted / >= 2 unrooted, star >= 2",
			"rooted enumerations come with a pendant single-child root in the library; the oracle suppresses it before comparing topologies",
		},
		Run: runC16,
	})
}

func dfact(k int) int { // k!! for odd k, 1 for k <= 0
	r := 1
	for ; k > 1; k -= 2 {
		r *= k
	}
	return r
}

// c16Judge applies every oracle of C16 to one generated tree.
func c16Judge(o *Obs, t *tree.Tree, gen string, n int, rooted bool, ctx string, indexesExpected bool) {
	if !checkStructure(o, t, ctx) {
		return
	}
	m := modelOf(t)
	tips := m.Tips()
	o.Check(len(tips) == n, "tip_count", fmt.Sprintf("%s: %d tips, %d requested", ctx, len(tips), n), ctx, "gen", gen)
	seen := map[string]bool{}
	for _, nm := range tips {
		o.Check(nm != "" && !seen[nm], "tip_names", fmt.Sprintf("%s: tip name %q empty or duplicated", ctx, nm), ctx, "gen", gen)
		seen[nm] = true
	}
	rootDeg, imin, imax := m.Degrees()
	if gen == "star" {
		o.Check(rootDeg == n && imax == 0, "star_shape", fmt.Sprintf("%s: root degree %d, other inner nodes up to degree %d", ctx, rootDeg, imax), ctx, "gen", gen)
	} else {
		wantRoot := 3
		if rooted {
			wantRoot = 2
		}
		o.Check(rootDeg == wantRoot, "rootedness", fmt.Sprintf("%s: root has %d children, rooted=%v requested", ctx, rootDeg, rooted), ctx, "gen", gen)
		o.Check(t.Rooted() == rooted, "rootedness", fmt.Sprintf("%s: Rooted()=%v, requested %v", ctx, t.Rooted(), rooted), ctx, "gen", gen)
		if imax > 0 {
			o.Check(imin == 3 && imax == 3, "not_binary", fmt.Sprintf("%s: inner node degrees between %d and %d", ctx, imin, imax), ctx, "gen", gen)
		}
	}
	for _, nd := range allNodes(m)[1:] {
		if !o.Check(nd.Len.Has && nd.Len.V >= 0, "branch_length", fmt.Sprintf("%s: branch above %q has length %v", ctx, nd.Name, nd.Len), ctx, "gen", gen) {
			break
		}
	}
	if indexesExpected {
		// "indexes ready for use": no ReinitIndexes here
		indexMonitor(o, t, ctx+" (indexes as returned by the generator)")
		nodeDepths(o, t, ctx+" (depths as returned by the generator)", gen)
	}
	switch gen {
	case "caterpillar":
		if n >= 4 || (rooted && n >= 3) {
			ch := 0
			for i, nd := range allNodes(m) {
				if nd.IsTip() {
					continue
				}
				tipKids := 0
				for _, c := range nd.Children {
					if c.IsTip() {
						tipKids++
					}
				}
				if (i > 0 || rooted) && tipKids == 2 && len(nd.Children) == 2 {
					ch++
				}
				if i == 0 && !rooted && tipKids == 2 {
					ch++
				}
			}
			want := 2
			if rooted {
				want = 1
			}
			o.Check(ch == want, "caterpillar_shape", fmt.Sprintf("%s: %d cherries, a caterpillar has %d", ctx, ch, want), ctx, "gen", gen)
		}
	case "balanced":
		// depth profile
		depths := map[int]int{}
		var rec func(nd *ref.Node, d int) int
		okSizes := true
		rec = func(nd *ref.Node, d int) int {
			if nd.IsTip() {
				depths[d]++
				return 1
			}
			var sz []int
			tot := 0
			for _, c := range nd.Children {
				s := rec(c, d+1)
				sz = append(sz, s)
				tot += s
			}
			if d > 0 || rooted {
				if len(sz) != 2 || sz[0] != sz[1] {
					okSizes = false
				}
			}
			return tot
		}
		rec(m.Root, 0)
		d := 0
		for 1<<uint(d) < n {
			d++
		}
		if rooted {
			o.Check(okSizes && len(depths) == 1 && depths[d] == n, "balanced_shape", fmt.Sprintf("%s: tip depth profile %v, want all %d tips at depth %d", ctx, depths, n, d), ctx, "gen", gen)
		} else if d >= 2 {
			o.Check(okSizes && depths[d] == n/2 && depths[d-1] == n/2, "balanced_shape", fmt.Sprintf("%s: tip depth profile %v, want %d tips at depth %d and %d at depth %d", ctx, depths, n/2, d, n/2, d-1), ctx, "gen", gen)
		}
	}
}

func c16Call(gen string, n int, rooted bool) (t *tree.Tree, err error) {
	switch gen {
	case "uniform":
		return tree.RandomUniformBinaryTree(n, rooted)
	case "yule":
		return tree.RandomYuleBinaryTree(n, rooted)
	case "caterpillar":
		return tree.RandomCaterpillarBinaryTree(n, rooted)
	case "balanced":
		return tree.RandomBalancedBinaryTree(n, rooted)
	default:
		return tree.StarTree(n)
	}
}

// c16Valid tells whether the size is one for which a tree must be returned; tips = number of tips of that tree.
func c16Valid(gen string, n int, rooted bool) (valid bool, tips int) {
	switch gen {
	case "balanced":
		if n < 1 || (!rooted && n < 2) {
			return false, 0
		}
		return true, 1 << uint(n)
	case "star":
		return n >= 2, n
	default:
		return n >= 3, n
	}
}

var c16CLIName = map[string]string{"uniform": "uniformtree", "yule": "yuletree", "caterpillar": "caterpillartree", "balanced": "balancedtree", "star": "startree"}

func runC16(c *Ctx, idx int, o *Obs) {
	r := c.Rng("C16", idx)
	if idx%20 == 19 {
		c16Enumerate(c, o, r, idx)
		return
	}
	gens := []string{"uniform", "yule", "caterpillar", "balanced", "star", "uniform", "yule", "caterpillar"}
	gen := gens[idx%len(gens)]
	rooted := (idx/len(gens))%2 == 0
	var n int
	switch gen {
	case "balanced":
		n = -1 + r.Intn(12) // -1..10
		if !c.Thorough() && n > 8 {
			n = 8
		}
	default:
		switch r.Intn(10) {
		case 0:
			n = []int{100, 1000}[r.Intn(2)]
		case 1, 2:
			n = -1 + r.Intn(6) // -1..4 boundary
		default:
			n = 2 + r.Intn(63)
		}
	}
	if gen == "star" {
		rooted = false
	}
	seed := r.Int63()
	ctx := fmt.Sprintf("%s(n=%d, rooted=%v) seed %d", gen, n, rooted, seed)
	o.Sample = ctx
	o.Class = gen
	o.SetFP(ctx)
	valid, tips := c16Valid(gen, n, rooted)
	o.Nontrivial = valid && tips >= 4
	c.Announce(ctx)

	if idx%5 == 4 {
		c16CLI(c, o, gen, n, rooted, seed, valid, tips, ctx)
		return
	}
	rand.Seed(seed)
	var t *tree.Tree
	var err error
	if o.Guard("generator_panic", ctx, func() { t, err = c16Call(gen, n, rooted) }) {
		return
	}
	o.Ev("lib:"+gen, 1)
	if !valid {
		o.Ev("invalid_size", 1)
		o.Check(err != nil, "invalid_size_accepted", fmt.Sprintf("%s: no error for a size below the minimum (returned %s)", ctx, treeText(t)), ctx, "gen", gen)
		return
	}
	if !o.Check(err == nil && t != nil, "valid_size_rejected", fmt.Sprintf("%s: %v", ctx, err), ctx, "gen", gen) {
		return
	}
	c16Judge(o, t, gen, tips, rooted, ctx, true)
	if r.Intn(8) == 0 && tips <= 64 {
		c16Concurrent(o, gen, n, tips, rooted, ctx)
	}
}

// c16Concurrent: several callers at once (the generators draw from the goroutine-safe global source and are
// documented as plain functions): every tree returned to every caller is judged like a tree returned to a single
// caller.
func c16Concurrent(o *Obs, gen string, n, tips int, rooted bool, ctx string) {
	const callers, each = 6, 12
	type res struct {
		t     *tree.Tree
		err   error
		panic string
	}
	out := make([][]res, callers)
	var wg sync.WaitGroup
	start := make(chan struct{})
	for g := 0; g < callers; g++ {
		wg.Add(1)
		go func(g int) {
			defer wg.Done()
			<-start
			for i := 0; i < each; i++ {
				var x res
				func() {
					defer func() {
						if p := recover(); p != nil {
							x.panic = fmt.Sprint(p)
						}
					}()
					x.t, x.err = c16Call(gen, n, rooted)
				}()
				out[g] = append(out[g], x)
				runtime.Gosched()
			}
		}(g)
	}
	close(start)
	wg.Wait()
	for g := range out {
		for i, x := range out[g] {
			cc := fmt.Sprintf("%s, caller %d of %d concurrent callers, call %d", ctx, g, callers, i)
			o.Ev("concurrent_generator_calls", 1)
			if !o.Check(x.panic == "", "generator_panic", cc+": "+x.panic, cc, "gen", gen) {
				return
			}
			if !o.Check(x.err == nil && x.t != nil, "valid_size_rejected", fmt.Sprintf("%s: %v", cc, x.err), cc, "gen", gen) {
				return
			}
			before := len(o.Viols)
			c16Judge(o, x.t, gen, tips, rooted, cc, true)
			if len(o.Viols) > before {
				return
			}
		}
	}
}

// nodeDepths: the depth ComputeDepths documents for every node (0 at tips; for an unrooted tree the number of
// branches to the closest tip, for a rooted tree to the closest tip below the node).
func nodeDepths(o *Obs, t *tree.Tree, ctx, gen string) {
	var below func(n, prev *tree.Node) int
	below = func(n, prev *tree.Node) int {
		if n.Tip() {
			return 0
		}
		best := -1
		for _, c := range n.Neigh() {
			if c != prev {
				if d := below(c, n); best < 0 || d+1 < best {
					best = d + 1
				}
			}
		}
		return best
	}
	nodes := t.Nodes()
	want := map[*tree.Node]int{}
	if t.Rooted() {
		var rec func(n, prev *tree.Node)
		rec = func(n, prev *tree.Node) {
			want[n] = below(n, prev)
			for _, c := range n.Neigh() {
				if c != prev {
					rec(c, n)
				}
			}
		}
		rec(t.Root(), nil)
	} else {
		// breadth first from all tips at once
		var cur []*tree.Node
		for _, n := range nodes {
			if n.Tip() {
				want[n] = 0
				cur = append(cur, n)
			}
		}
		for len(cur) > 0 {
			var next []*tree.Node
			for _, n := range cur {
				for _, c := range n.Neigh() {
					if _, ok := want[c]; !ok {
						want[c] = want[n] + 1
						next = append(next, c)
					}
				}
			}
			cur = next
		}
	}
	for _, n := range nodes {
		d, err := n.Depth()
		if !o.Check(err == nil && d == want[n], "node_depth", fmt.Sprintf("%s: a node with %d neighbours has depth %d (err %v), its closest tip is %d branches away", ctx, n.Nneigh(), d, err, want[n]), ctx, "gen", gen) {
			return
		}
	}
}

func treeText(t *tree.Tree) (s string) {
	if t == nil {
		return "<nil>"
	}
	defer func() {
		if recover() != nil {
			s = "<unprintable>"
		}
	}()
	return Trunc(t.Newick(), 200)
}

func c16CLI(c *Ctx, o *Obs, gen string, n int, rooted bool, seed int64, valid bool, tips int, ctx string) {
	k := 1 + int(seed%3)
	args := []string{"generate", c16CLIName[gen], "--seed", fmt.Sprint(seed % 1000000), "-n", fmt.Sprint(k)}
	if gen == "balanced" {
		args = append(args, "-d", fmt.Sprint(n))
	} else {
		args = append(args, "-l", fmt.Sprint(n))
	}
	if rooted {
		args = append(args, "-r")
	}
	toFile := (seed/3)%2 == 0
	outPath := filepath.Join(c.Tmp, "c16.out")
	if toFile {
		_ = os.Remove(outPath)
		args = append(args, "-o", outPath)
	}
	res := runCLI(c, "", args...)
	if toFile {
		// the result is what the command left in the file it was told to write
		b, _ := os.ReadFile(outPath)
		res.Stdout = string(b)
		o.Ev("cli_output_to_file", 1)
	}
	o.Ev("cli:"+gen, 1)
	what := "gotree " + strings.Join(args, " ")
	if res.TimedOut {
		o.Inconclusive = what + ": wall-clock watchdog"
		return
	}
	if !o.Check(!res.Panic && !res.Signal, "cli_crash", what+": "+res.brief(), ctx, "gen", gen) {
		return
	}
	if !valid {
		o.Ev("invalid_size", 1)
		// rejected = non-zero exit, or nothing on stdout and an error message on stderr (some commands log the error and leave with status 0)
		rejected := res.Exit != 0 || (strings.TrimSpace(res.Stdout) == "" && strings.Contains(res.Stderr, "rror"))
		if res.Exit == 0 && rejected {
			o.Ev("cli_rejected_with_exit0", 1)
		}
		o.Check(rejected, "invalid_size_accepted", what+": a size below the minimum was not rejected: "+res.brief()+" stdout "+Trunc(res.Stdout, 200), ctx, "gen", gen)
		return
	}
	if !o.Check(res.Exit == 0, "valid_size_rejected", what+": "+res.brief(), ctx, "gen", gen) {
		return
	}
	lines := strings.Split(strings.TrimSpace(res.Stdout), "\n")
	if !o.Check(len(lines) == k, "cli_tree_count", fmt.Sprintf("%s: %d lines for -n %d", what, len(lines), k), ctx, "gen", gen) {
		return
	}
	for _, ln := range lines {
		t, err := parseNewick(ln)
		if !o.Check(err == nil, "cli_output_unreadable", fmt.Sprintf("%s: %v in %q", what, err, Trunc(ln, 200)), ctx, "gen", gen) {
			continue
		}
		if err := t.ReinitIndexes(); err != nil {
			o.Fail("cli_output_unindexable", what+": "+err.Error(), ctx, "gen", gen)
			continue
		}
		c16Judge(o, t, gen, tips, rooted, what, false)
	}
}

func c16Enumerate(c *Ctx, o *Obs, r *rand.Rand, idx int) {
	rooted := (idx/20)%2 == 0
	lo, hi := 3, 8
	if rooted {
		lo, hi = 2, 7
	}
	if c.Thorough() && (idx/40)%8 == 0 {
		hi++
	}
	n := lo - 2 + (idx/40)%(hi-lo+3) // two sizes below the minimum as well
	if n > hi {
		n = hi
	}
	custom := (idx/40)%2 == 1
	var names []string
	if custom && n >= 1 {
		for i := 0; i < n; i++ {
			names = append(names, fmt.Sprintf("tx_%c%d", 'a'+rune(r.Intn(26)), i))
		}
	}
	ctx := fmt.Sprintf("AllTopologies(n=%d, rooted=%v, names=%v)", n, rooted, names)
	o.Sample = ctx
	o.Class = "topologies"
	o.SetFP(ctx)
	c.Announce(ctx)
	valid := (rooted && n >= 2) || (!rooted && n >= 3)
	viaCLI := (idx/20)%5 == 4 && !custom
	var texts []string
	if viaCLI {
		args := []string{"generate", "topologies", "-l", fmt.Sprint(n)}
		if rooted {
			args = append(args, "-r")
		}
		toFile := (idx/20)%2 == 0
		outPath := filepath.Join(c.Tmp, "c16topo.out")
		if toFile {
			_ = os.Remove(outPath)
			args = append(args, "-o", outPath)
		}
		res := runCLI(c, "", args...)
		if toFile {
			b, _ := os.ReadFile(outPath)
			res.Stdout = string(b)
			o.Ev("cli_output_to_file", 1)
		}
		o.Ev("cli:topologies", 1)
		what := "gotree " + strings.Join(args, " ")
		if !o.Check(!res.Panic && !res.Signal && !res.TimedOut, "cli_crash", what+": "+res.brief(), ctx, "gen", "topologies") {
			return
		}
		if !valid {
			o.Check(res.Exit != 0 || (strings.TrimSpace(res.Stdout) == "" && strings.Contains(res.Stderr, "rror")), "invalid_size_accepted", what+": not rejected: "+res.brief(), ctx, "gen", "topologies")
			return
		}
		if !o.Check(res.Exit == 0, "valid_size_rejected", what+": "+res.brief(), ctx, "gen", "topologies") {
			return
		}
		texts = strings.Split(strings.TrimSpace(res.Stdout), "\n")
	} else {
		var ts []*tree.Tree
		var err error
		if o.Guard("generator_panic", ctx, func() { ts, err = tree.AllTopologies(n, rooted, names...) }) {
			return
		}
		o.Ev("lib:topologies", 1)
		if !valid {
			o.Ev("invalid_size", 1)
			o.Check(err != nil, "invalid_size_accepted", ctx+": no error", ctx, "gen", "topologies")
			return
		}
		if !o.Check(err == nil, "valid_size_rejected", fmt.Sprintf("%s: %v", ctx, err), ctx, "gen", "topologies") {
			return
		}
		for _, t := range ts {
			w := ctx + " tree " + treeText(t)
			if rooted {
				// pendant single-child root: outside the writer's domain (C01), so only the pointer structure is walked
				wk, ps := mon.Walk(t, true)
				o.Asserts += wk.Asserts
				if len(ps) > 0 {
					o.Fail("structure_"+ps[0].Kind, ps[0].Detail+" in "+w, ctx, "inv", ps[0].Kind)
					return
				}
			} else if !checkStructure(o, t, w) {
				return
			}
			texts = append(texts, t.Newick())
		}
	}
	want := dfact(2*n - 5)
	if rooted {
		want = dfact(2*n - 3)
	}
	o.Nontrivial = want >= 3
	if !o.Check(len(texts) == want, "topology_count", fmt.Sprintf("%s: %d trees, expected %d", ctx, len(texts), want), ctx, "gen", "topologies") {
		return
	}
	wantNames := names
	if len(wantNames) == 0 {
		for i := 1; i <= n; i++ {
			wantNames = append(wantNames, fmt.Sprintf("Tip%d", i))
		}
	}
	wantNames = sortedCopy(wantNames)
	seen := map[string]int{}
	for i, s := range texts {
		m, err := ref.ParseNewick(s)
		if !o.Check(err == nil, "topology_unreadable", fmt.Sprintf("%s: tree %d: %v: %s", ctx, i, err, Trunc(s, 200)), ctx, "gen", "topologies") {
			return
		}
		for len(m.Root.Children) == 1 { // pendant root of the rooted enumeration
			m = &ref.Tree{Root: m.Root.Children[0]}
		}
		if !o.Check(sameStrings(m.SortedTips(), wantNames), "topology_tips", fmt.Sprintf("%s: tree %d has tips %v", ctx, i, short(m.SortedTips())), ctx, "gen", "topologies") {
			return
		}
		bin := true
		for j, nd := range allNodes(m) {
			if nd.IsTip() {
				continue
			}
			k := len(nd.Children)
			if j == 0 && !rooted {
				bin = bin && k == 3
			} else {
				bin = bin && k == 2
			}
		}
		if n >= 3 || rooted {
			o.Check(bin, "topology_not_binary", fmt.Sprintf("%s: tree %d is not binary: %s", ctx, i, s), ctx, "gen", "topologies")
		}
		var key string
		if rooted {
			key = m.CanonicalRooted()
		} else {
			key = m.CanonicalSplits(ref.NewTaxa(wantNames))
		}
		if j, dup := seen[key]; dup {
			o.Fail("topology_duplicate", fmt.Sprintf("%s: trees %d and %d are the same topology: %s", ctx, j, i, s), ctx, "gen", "topologies")
			return
		}
		seen[key] = i
	}
	o.Asserts += len(texts)
	o.Ev("topologies_enumerated", len(texts))
	ks := make([]string, 0, len(seen))
	for k := range seen {
		ks = append(ks, k)
	}
	sort.Strings(ks)
}
