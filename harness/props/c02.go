package props

import (
	"bufio"
	"bytes"
	"compress/gzip"
	"encoding/json"
	"errors"
	"fmt"
	"hash/fnv"
	"io"
	"math/rand"
	"os"
	"path/filepath"
	"runtime/debug"
	"runtime/pprof"
	"sort"
	"strings"
	"sync"
	"time"

	"github.com/evolbioinfo/gotree/io/fileutils"
	"github.com/evolbioinfo/gotree/io/newick"
	"github.com/evolbioinfo/gotree/io/nextstrain"
	"github.com/evolbioinfo/gotree/io/nexus"
	"github.com/evolbioinfo/gotree/io/phyloxml"
	"github.com/evolbioinfo/gotree/io/utils"
	"github.com/evolbioinfo/gotree/tree"

	"verif/gen"
	"verif/ref"
)

func init() {
	Register(&Prop{
		ID:       "C02",
		Chunk:    2000,
		NeedsCLI: true,
		CPULimit: 120,
		Count: func(c *Ctx) int {
			if c.Thorough() {
				return 800000
			}
			return 32000
		},
		Rule: "case = one document: a seed document of one of the four formats (hand-written edge documents, documents written by gotree's own writers " +
			"from generated trees, an own Nextstrain emitter, small files of the repository's tests/data) put through 0..3 structure-aware or byte-level " +
			"mutations (truncate at a token boundary, splice, delete/duplicate/swap a token, flip a byte, insert a metacharacter or keyword, drop the value " +
			"after '=', open a comment/bracket/quote/tag and never close it, blank-only lines, CR line ends, empty labels, nesting 10^3..10^6); each " +
			"document goes to the format's parser, ReadTreeReader, the line splitter and ReadMultiTrees (and every 4th to the three other formats' readers, " +
			"every 40th to the gotree binary); monitors: recover + process death attribution, post-EOF read counter, CPU-second bound, reader-goroutine/" +
			"channel-state monitor, follow-up traversal/index/write of every delivered tree; non-trivial = the document still carries its format's lead-in " +
			"and has >= 10 bytes; distinct by document bytes",
		Assumptions: []string{
			"documents <= 1 MiB; nesting <= 10^6 (single-child chains), indexing only for trees <= 10^4 tips (bitsets are O(tips^2) bits)",
			"an error return, a logged warning or ReinitIndexes reporting duplicate names are all acceptable outcomes; only panics, process deaths, " +
				"more than 1000 reads after EOF, more than 120 CPU seconds for one document, or a reader goroutine that ended without closing its channel count",
		},
		MinNontrivialFrac: 0.25,
		Run:               runC02,
	})
}

const eofLimit = 1000

type eofAbort struct{}

func (eofAbort) Error() string { return "verif: post-EOF read limit" }

// eofCounter is the post-EOF read monitor: it counts Read calls issued after EOF has been reported.
type eofCounter struct {
	r       io.Reader
	eof     bool
	postEOF int
	chunk   int   // > 0: at most this many bytes per Read (a pipe or socket delivering little at a time)
	failAt  int   // >= 0: after this many bytes the source fails with failErr instead of going on
	failErr error // what it fails with
	given   int
}

var errInjectedRead = errors.New("verif: injected read error")

// newEC wraps a document; one document in four is delivered a few bytes at a time, one in eight breaks off
// with a read error (not end of input) at a position derived from the document itself.
func newEC(doc string) *eofCounter {
	h := fnv.New32a()
	h.Write([]byte(doc))
	v := h.Sum32()
	e := &eofCounter{r: strings.NewReader(doc), failAt: -1}
	switch v % 8 {
	case 1, 2:
		e.chunk = 1 + int(v>>8)%7
	case 3:
		if len(doc) > 0 {
			e.failAt, e.failErr = int(v>>8)%len(doc), errInjectedRead
			if (v>>4)%2 == 0 {
				e.failErr = io.ErrUnexpectedEOF
			}
		}
	}
	return e
}

func (e *eofCounter) Read(p []byte) (int, error) {
	if e.eof {
		e.postEOF++
		if e.postEOF > eofLimit {
			panic("verif: post-EOF read limit: the parser keeps reading after end of input")
		}
		if e.failErr != nil && e.failAt >= 0 && e.given >= e.failAt {
			return 0, e.failErr
		}
		return 0, io.EOF
	}
	if e.chunk > 0 && len(p) > e.chunk {
		p = p[:e.chunk]
	}
	if e.failAt >= 0 {
		if e.given >= e.failAt {
			e.eof = true // from here on every read is counted like a read after the end
			return 0, e.failErr
		}
		if len(p) > e.failAt-e.given {
			p = p[:e.failAt-e.given]
		}
	}
	n, err := e.r.Read(p)
	e.given += n
	if err == io.EOF {
		e.eof = true
	}
	return n, err
}

var c02Formats = []string{"newick", "nexus", "phyloxml", "nextstrain"}
var c02FormatID = map[string]int{"newick": utils.FORMAT_NEWICK, "nexus": utils.FORMAT_NEXUS, "phyloxml": utils.FORMAT_PHYLOXML, "nextstrain": utils.FORMAT_NEXTSTRAIN}

var c02Hand = map[string][]string{
	"newick": {
		"(a:1,b:2,(c:3,d:4)0.9:5)root;", "[c](a[x]:1[y],b,(c,d)0.5/0.01[z]:2);\n(a,b,(c,d));\n", "((a,b),(c,d));", "(a,b);", "(A);", "((((a))));",
		"(a,b,(c,d));\n \n(a,c,(b,d));\n", "(a,b,\n(c,\nd));  \n\t\n(a,(b,c),d)\n;\n", "(a,b,(c,d))\r(a,c,(b,d));\r\n", "();", ";", "(,);", "(a,,b);", "(a:,b:1);",
		"('a b':1,\"c\":2,d e:3);", "(a:1e-5,b:1E+300,c:-0.0,(d:.5,e:5.):NaN);", "(a,b)c)d;", "((a,b);", "(a,b,(c,d)1/2/3);", "(a[&x=1,y={1,2}]:1[&z],b[]:2);",
	},
	"nexus": {
		"#NEXUS\nBEGIN TAXA;\n DIMENSIONS NTAX=4;\n TAXLABELS a b c d;\nEND;\nBEGIN TREES;\n  TRANSLATE\n   0 a,\n   1 b,\n   2 c,\n   3 d\n  ;\n  TREE t1 = [&R] (0:1,1:2,(2:3,3:4)0.9:5);\n  TREE t2 = (0,1,(2,3));\nEND;\n",
		"#NEXUS\n[comment]\nBEGIN DATA;\nDIMENSIONS NTAX=2 NCHAR=4;\nFORMAT DATATYPE=DNA MISSING=* GAP=-;\nMATRIX\na ACGT\nb AC-T\n;\nEND;\nBEGIN TREES;\nTREE t=(a,b);\nEND;\n",
		"#NEXUS\nBEGIN FOO;\n bar baz;\nEND;\nBEGIN TAXA;\nTAXLABELS a b c;\nEND;\nBEGIN TREES;\nTREE x = (a,b,c);\nEND;",
		"#NEXUS\n[before] BEGIN TREES; [in] TREE [name] t [x] = [&U] (a,b,(c,d)); END;\n",
		"#NEXUS\nBEGIN CHARACTERS;\nDIMENSIONS NCHAR=6;\nFORMAT DATATYPE=PROTEIN GAP=- MISSING=? INTERLEAVE;\nMATRIX\na ACD\nb AC-\n\na EFG\nb E?G\n;\nEND;\n",
		"#NEXUS\r\nBEGIN TREES;\r\nTREE t = (a,b,c);\r\nEND;\r\n", "#NEXUS\rBEGIN TREES;\rTREE t = (a,b,c);\rEND;\r",
		"#NEXUS\nBEGIN TREES;\nTREE t = (a,b,c);\nTREE u = (A);\nEND;\n", "#NEXUS\nBEGIN DATA;\nFORMAT MISSING=", "#NEXUS\nBEGIN DATA;\nFORMAT GAP=;\nEND;", "#NEXUS\n[unterminated",
		"#NEXUS\nBEGIN TAXA;\nDIMENSIONS NTAX=3;\nTAXLABELS a b c;\nEND;\nBEGIN DATA;\nDIMENSIONS NTAX=3 NCHAR=4;\nFORMAT DATATYPE=DNA GAP=- MISSING=?;\nMATRIX\na ACGT\nb AC-T\nc A?GT\n;\nEND;\nBEGIN TREES;\nTREE t = (a,b,c);\nEND;\n",
		"#NEXUS\nBEGIN TAXA;\nDIMENSIONS NTAX=", "#NEXUS\nBEGIN TREES;\nTRANSLATE 0 a, 1", "#nexus\nbegin trees;\ntree t=(a,b,c);\nend;\n",
	},
	"phyloxml": {
		"<?xml version=\"1.0\"?>\n<phyloxml xmlns=\"http://www.phyloxml.org\">\n<phylogeny rooted=\"true\">\n<clade><clade><name>a</name><branch_length>1</branch_length></clade><clade><confidence type=\"bootstrap\">0.9</confidence><clade><name>b</name></clade><clade><taxonomy><scientific_name>c</scientific_name></taxonomy></clade></clade></clade>\n</phylogeny>\n<phylogeny rooted=\"false\"><clade><name>x</name></clade></phylogeny></phyloxml>\n",
		"<phyloxml><phylogeny rooted=\"true\"></phylogeny></phyloxml>", "<phyloxml></phyloxml>", "<phyloxml><phylogeny><clade/></phylogeny></phyloxml>",
		"<phyloxml><phylogeny rooted=\"false\"><clade branch_length=\"0.5\"><clade><name></name></clade><clade><name>a</name><clade><name>b</name></clade></clade></clade></phylogeny></phyloxml>",
		"<phyloxml><phylogeny><clade><branch_length>x</branch_length><confidence type=\"b\">y</confidence><clade><name>a</name></clade><clade><name>a</name></clade></clade></phylogeny></phyloxml>",
	},
	"nextstrain": {
		`{"version":"v2","tree":{"name":"r","node_attrs":{"div":0},"children":[{"name":"a","node_attrs":{"div":1,"num_date":{"value":2020.5},"country":{"value":"FR"}}},{"name":"n","node_attrs":{"div":0.5},"branch_attrs":{"labels":{"aa":"S:A1T, N:B2C"}},"children":[{"name":"b","node_attrs":{"div":1.5}},{"name":"c","node_attrs":{"div":2}}]}]}}`,
		`{"version":"v2","tree":{"name":"r","children":[{"name":"a"}]}}`, `{"version":"v2","tree":{}}`, `{"version":"v2"}`, `{"tree":null}`, `[]`,
		`{"version":"v2","tree":{"name":"r","node_attrs":{"div":"x"},"children":[{"name":"a","node_attrs":{"div":-1}},{"name":"a","node_attrs":null,"children":[]}]}}`,
		`{"version":"v2","tree":{"name":"r","branch_attrs":{"mutations":{"nuc":["A1T","C5G"],"S":["D614G"]}},"children":[{"name":"a","branch_attrs":{"mutations":{}}},{"name":"b","branch_attrs":null}]}}`,
	},
}

var (
	c02RepoOnce sync.Once
	c02RepoDocs []string
)

// small Newick files of the repository's own test data (gzip), first lines only.
func repoDocs() []string {
	c02RepoOnce.Do(func() {
		dir := filepath.Join(Env("VERIF_REPO", "/repo"), "tests", "data")
		fs, _ := filepath.Glob(filepath.Join(dir, "*.nw.gz"))
		for _, f := range fs {
			fh, err := os.Open(f)
			if err != nil {
				continue
			}
			if z, err := gzip.NewReader(fh); err == nil {
				b, _ := io.ReadAll(io.LimitReader(z, 200000))
				lines := strings.SplitAfter(string(b), "\n")
				if len(lines) > 3 {
					lines = lines[:3]
				}
				d := strings.Join(lines, "")
				if len(d) > 0 && len(d) <= 100000 {
					c02RepoDocs = append(c02RepoDocs, d)
				}
			}
			fh.Close()
		}
	})
	return c02RepoDocs
}

// seedDoc returns a valid (or hand-made edge) document of the format.
func c02SeedDoc(r *rand.Rand, f string) (doc, origin string) {
	hand := c02Hand[f]
	if r.Intn(3) == 0 {
		return hand[r.Intn(len(hand))], "hand"
	}
	if f == "newick" && r.Intn(6) == 0 {
		if rd := repoDocs(); len(rd) > 0 {
			return rd[r.Intn(len(rd))], "repo"
		}
	}
	// written by gotree's writers from generated trees
	ntax := gen.Size(r, 2, 40)
	ntrees := 1 + r.Intn(gen.Pick(r, 1, 3, 6))
	var names []string
	used := map[string]bool{}
	for len(names) < ntax {
		s := c13Name(r)
		if !used[s] {
			used[s] = true
			names = append(names, s)
		}
	}
	var models []*ref.Tree
	var texts []string
	for i := 0; i < ntrees; i++ {
		m := gen.Tree(r, gen.Opts{N: ntax, Shape: gen.Pick(r, "random", "random", "caterpillar", "balanced", "star"), RootDeg: gen.Pick(r, 0, 2, 3),
			MultiP: gen.Pick(r, 0.0, 0.3), Lens: gen.Pick(r, "all", "mixed", "none"), LenCls: gen.Pick(r, "len", "dec", "any", "edge"),
			SupP: gen.Pick(r, 0.0, 0.5, 1.0), SupCls: gen.Pick(r, "unit", "int", "dec"), NodeComP: gen.Pick(r, 0.0, 0.0, 0.3), EdgeComP: gen.Pick(r, 0.0, 0.0, 0.3),
			SingleP: gen.Pick(r, 0.0, 0.0, 0.1)})
		p := r.Perm(ntax)
		for j, tp := range modelTips(m) {
			tp.Name = names[p[j]]
		}
		models = append(models, m)
		texts = append(texts, m.Newick())
	}
	nw := strings.Join(texts, "\n") + "\n"
	switch f {
	case "newick":
		return nw, "written"
	case "nextstrain":
		return nextstrainJSON(models[0]), "written"
	}
	var ts []*tree.Tree
	for _, s := range texts {
		t, err := parseNewick(s)
		if err != nil {
			return hand[r.Intn(len(hand))], "hand"
		}
		ts = append(ts, t)
	}
	var out string
	var err error
	func() {
		defer func() {
			if x := recover(); x != nil {
				err = fmt.Errorf("%v", x)
			}
		}()
		if f == "nexus" {
			out, err = nexus.WriteNexus(chanOf(ts...), r.Intn(2) == 0)
		} else {
			out, err = phyloxml.WritePhyloXML(chanOf(ts...))
		}
	}()
	if err != nil || out == "" {
		return hand[r.Intn(len(hand))], "hand"
	}
	return out, "written"
}

var c02Meta = []string{"(", ")", "[", "]", ",", ":", ";", "=", " ", "\n", "\r", "\t", "'", "\"", "<", ">", "/", "{", "}", "0", "-1", "e", ".", "\x00", "\xff",
	"BEGIN", "END;", "TREE", "TRANSLATE", "MATRIX", "FORMAT", "MISSING=", "GAP=", "DATATYPE=", "DIMENSIONS", "NTAX=", "NCHAR=", "TAXLABELS", "[&R]", "#NEXUS",
	"<clade>", "</clade>", "<name>", "<phylogeny>", "<branch_length>", "<confidence>", "\"children\":[", "\"node_attrs\":{", "\"div\":", "null", "<!--", "<![CDATA["}

// token boundaries of a document: positions right after a metacharacter or blank.
func c02Bounds(b []byte) []int {
	var o []int
	for i, ch := range b {
		switch ch {
		case '(', ')', '[', ']', ',', ':', ';', '=', ' ', '\n', '\t', '<', '>', '{', '}', '"', '/':
			o = append(o, i, i+1)
		}
	}
	if len(o) == 0 {
		o = append(o, 0, len(b))
	}
	return o
}

// mutate applies one mutation and returns its name.
func c02Mutate(r *rand.Rand, b []byte, f string) ([]byte, string) {
	if len(b) == 0 {
		return []byte(c02Meta[r.Intn(len(c02Meta))]), "insert"
	}
	bounds := c02Bounds(b)
	at := func() int { return bounds[r.Intn(len(bounds))] }
	switch r.Intn(20) {
	case 0:
		return b[:at()], "truncate@token"
	case 1:
		return b[:r.Intn(len(b))], "truncate@byte"
	case 2:
		p := at()
		return append(b[:p:p], append([]byte(c02Meta[r.Intn(len(c02Meta))]), b[p:]...)...), "insert"
	case 3: // delete a token span
		p, q := at(), at()
		if p > q {
			p, q = q, p
		}
		if q-p > 64 {
			q = p + r.Intn(64)
		}
		return append(b[:p:p], b[q:]...), "delete"
	case 4:
		p := r.Intn(len(b))
		c := append([]byte(nil), b...)
		c[p] = byte(r.Intn(256))
		return c, "flipbyte"
	case 5: // splice with another document of the same or another format
		of := f
		if r.Intn(3) == 0 {
			of = c02Formats[r.Intn(4)]
		}
		o, _ := c02SeedDoc(r, of)
		p := at()
		q := 0
		if len(o) > 0 {
			q = r.Intn(len(o) + 1)
		}
		return append(b[:p:p], []byte(o[q:])...), "splice"
	case 6: // duplicate a span
		p, q := at(), at()
		if p > q {
			p, q = q, p
		}
		if q-p > 256 {
			q = p + r.Intn(256)
		}
		return append(b[:q:q], append(append([]byte{}, b[p:q]...), b[q:]...)...), "duplicate"
	case 7:
		p := at()
		return append(b[:p:p], append([]byte(gen.Pick(r, "   \n", "\n \t \n", "\n\n", " \n", "\t")), b[p:]...)...), "blankline"
	case 8:
		return b[at():], "drophead"
	case 9: // drop the value after '='
		idx := bytes.IndexByte(b, '=')
		if idx < 0 {
			return append(b, '='), "append="
		}
		var eqs []int
		for i, ch := range b {
			if ch == '=' {
				eqs = append(eqs, i)
			}
		}
		p := eqs[r.Intn(len(eqs))]
		q := p + 1
		for q < len(b) && !strings.ContainsRune(" \n\t;,)", rune(b[q])) {
			q++
		}
		if r.Intn(3) == 0 {
			return b[:p+1], "value-dropped+truncated"
		}
		return append(b[:p+1:p+1], b[q:]...), "value-dropped"
	case 10: // open something and never close it
		p := at()
		return append(b[:p:p], append([]byte(gen.Pick(r, "[", "(", "'", "\"", "<clade>", "<!--", "{", "[&")), b[p:]...)...), "open-unclosed"
	case 11: // remove every occurrence of one closing character from some point on
		ch := gen.Pick(r, byte(']'), byte(')'), byte(';'), byte('>'), byte('}'))
		p := at()
		c := append([]byte(nil), b[:p]...)
		for _, x := range b[p:] {
			if x != ch {
				c = append(c, x)
			}
		}
		return c, "closers-removed"
	case 12:
		return bytes.ReplaceAll(b, []byte("\n"), []byte(gen.Pick(r, "\r", "\r\n", "\n\n", " \n"))), "line-ends"
	case 13: // empty labels: drop the characters of one identifier
		p := at()
		q := p
		for q < len(b) && !strings.ContainsRune("()[],:;= \n\t<>\"", rune(b[q])) {
			q++
		}
		return append(b[:p:p], b[q:]...), "empty-label"
	case 14: // swap two spans
		p, q := at(), at()
		if p > q {
			p, q = q, p
		}
		m := p + (q-p)/2
		c := append([]byte(nil), b[:p]...)
		c = append(c, b[m:q]...)
		c = append(c, b[p:m]...)
		return append(c, b[q:]...), "swap"
	case 15: // only blanks / only the lead-in
		return []byte(gen.Pick(r, "", " ", "\n", " \n \n", "\t;", "#NEXUS", "#NEXUS\n", "<", "{", "(", "<?xml version=\"1.0\"?>")), "degenerate"
	case 16: // a number made strange
		p := at()
		return append(b[:p:p], append([]byte(gen.Pick(r, "1e999", "-", "+", "1e", "0x10", "NaN", "Inf", "1/", "/2", "1//2", "99999999999999999999")), b[p:]...)...), "number"
	case 17: // the value after '=', ':' or '>' replaced by a hostile one (sizes, counts, numbers, nothing)
		var ps []int
		for i, ch := range b {
			if ch == '=' || ch == ':' || ch == '>' {
				ps = append(ps, i)
			}
		}
		if len(ps) == 0 {
			return append(b, []byte("=-4")...), "value-replaced"
		}
		p := ps[r.Intn(len(ps))] + 1
		q := p
		for q < len(b) && !strings.ContainsRune(" \n\t;,)<}]", rune(b[q])) {
			q++
		}
		v := gen.Pick(r, "-4", "-1", "0", "9223372036854775807", "99999999999999999999", "4294967296", "1000000000", "null", "\"\"", "[]", "{}", "true", "1e308", "-0")
		return append(b[:p:p], append([]byte(v), b[q:]...)...), "value-replaced"
	case 18: // JSON documents: one value anywhere in the document replaced, the document staying well-formed JSON
		var doc interface{}
		if json.Unmarshal(b, &doc) != nil {
			p := at()
			return append(b[:p:p], append([]byte("null,"), b[p:]...)...), "json-null-inserted"
		}
		var paths []string
		setters := map[string]func(interface{}){}
		var walk2 func(v interface{}, path string)
		walk2 = func(v interface{}, path string) {
			switch x := v.(type) {
			case map[string]interface{}:
				for k := range x {
					k := k
					pp := path + "/" + k
					paths = append(paths, pp)
					setters[pp] = func(nv interface{}) { x[k] = nv }
					walk2(x[k], pp)
				}
			case []interface{}:
				for i := range x {
					i := i
					pp := fmt.Sprintf("%s/%d", path, i)
					paths = append(paths, pp)
					setters[pp] = func(nv interface{}) { x[i] = nv }
					walk2(x[i], pp)
				}
			}
		}
		walk2(doc, "")
		if len(paths) == 0 {
			return []byte("null"), "json-value"
		}
		sort.Strings(paths) // map iteration order must not decide the case
		var nv interface{}
		switch r.Intn(9) {
		case 0, 1, 2:
			nv = nil
		case 3:
			nv = map[string]interface{}{}
		case 4:
			nv = []interface{}{}
		case 5:
			nv = []interface{}{nil, nil}
		case 6:
			nv = -1
		case 7:
			nv = ""
		default:
			nv = true
		}
		setters[paths[r.Intn(len(paths))]](nv)
		out, err := json.Marshal(doc)
		if err != nil {
			return b, "json-value"
		}
		return out, "json-value"
	default: // invalid UTF-8 / control bytes
		p := at()
		return append(b[:p:p], append([]byte(gen.Pick(r, "\xc3", "\xe2\x82", "\xf0\x9f", "\x00\x00", "\x1b", "\xef\xbb\xbf", "\xff\xfe")), b[p:]...)...), "bad-utf8"
	}
}

// nested documents ("huge nesting").
func c02Nested(r *rand.Rand, f string, depth int) string {
	switch f {
	case "newick":
		switch r.Intn(4) {
		case 0: // single-child chain
			return strings.Repeat("(", depth) + "a" + strings.Repeat(")", depth) + ";"
		case 1: // caterpillar
			return strings.Repeat("(", depth) + "a" + strings.Repeat(",b)", depth) + ";"
		case 2: // never closed
			return strings.Repeat("(", depth) + "a"
		default: // comments nested as text
			if depth > 100000 {
				depth = 100000 // the Newick comment reader is quadratic in the comment length (3 s at 10^5, 166 s at 10^6): slow, not a hang
			}
			return "(" + strings.Repeat("[", depth) + "a" + strings.Repeat("]", depth) + ",b);"
		}
	case "nexus":
		if depth > 10000 {
			depth = 10000 // the Nexus reader is quadratic in the length of a TREE statement (24 s at depth 10^5): slow, not a hang
		}
		if r.Intn(2) == 0 {
			return "#NEXUS\nBEGIN TREES;\nTREE t = " + strings.Repeat("(", depth) + "a" + strings.Repeat(",b)", depth) + ";\nEND;\n"
		}
		return "#NEXUS\n" + strings.Repeat("[", depth) + "\nBEGIN TREES;\nTREE t = (a,b);\nEND;\n"
	case "phyloxml":
		d := depth
		if d > 20000 {
			d = 20000 // encoding/xml itself recurses per element; deeper is a property of the standard library
		}
		return "<phyloxml><phylogeny rooted=\"true\">" + strings.Repeat("<clade>", d) + "<name>a</name>" + strings.Repeat("</clade>", d) + "</phylogeny></phyloxml>"
	default:
		d := depth
		if d > 9000 {
			d = 9000 // encoding/json refuses nesting above 10000 by itself
		}
		return `{"version":"v2","tree":` + strings.Repeat(`{"name":"n","children":[`, d) + `{"name":"a"}` + strings.Repeat(`]}`, d) + `}`
	}
}

func c02Leadin(doc, f string) bool {
	if len(doc) < 10 {
		return false
	}
	switch f {
	case "newick":
		return strings.Contains(doc, "(")
	case "nexus":
		return len(doc) >= 6 && strings.EqualFold(strings.TrimSpace(doc)[:min(6, len(strings.TrimSpace(doc)))], "#NEXUS")
	case "phyloxml":
		return strings.Contains(doc, "<phyloxml")
	default:
		return strings.HasPrefix(strings.TrimSpace(doc), "{") && strings.Contains(doc, "\"tree\"")
	}
}

// readerGoroutineAlive looks for the producer goroutine of ReadMultiTrees in a goroutine dump.
func readerGoroutineAlive() bool {
	var b bytes.Buffer
	_ = pprof.Lookup("goroutine").WriteTo(&b, 2)
	return strings.Contains(b.String(), "io/utils.ReadMultiTrees.func1")
}

type c02Outcome struct {
	trees []*tree.Tree
	err   bool
	items int
}

func runC02(c *Ctx, idx int, o *Obs) {
	r := c.Rng("C02", idx)
	f := c02Formats[idx%4]
	var doc, class string
	if r.Intn(80) == 0 {
		ladder := []int{300, 1000, 1000, 10000, 10000, 100000}
		if c.Thorough() && r.Intn(10) == 0 {
			ladder = []int{1000000}
		}
		d := ladder[r.Intn(len(ladder))]
		doc = c02Nested(r, f, d)
		class = fmt.Sprintf("%s/nested%d", f, d)
	} else {
		seed, origin := c02SeedDoc(r, f)
		b := []byte(seed)
		nm := gen.Pick(r, 0, 1, 1, 1, 2, 3)
		var muts []string
		for i := 0; i < nm; i++ {
			var m string
			b, m = c02Mutate(r, b, f)
			muts = append(muts, m)
			if len(b) > 1<<20 {
				b = b[:1<<20]
			}
		}
		doc = string(b)
		if nm == 0 {
			class = f + "/" + origin + "/unmutated"
		} else {
			class = f + "/" + muts[0]
		}
	}
	o.Class = class
	o.Sample = Trunc(doc, 300)
	o.SetFP(f, doc)
	o.Nontrivial = c02Leadin(doc, f)
	c.Announce(fmt.Sprintf("format=%s\n%s", f, doc))

	formats := []string{f}
	if idx%16 < 4 {
		for _, g := range c02Formats {
			if g != f {
				formats = append(formats, g)
			}
		}
	}
	for _, g := range formats {
		c02Feed(c, o, doc, g)
	}
	if idx%40 < 4 && len(doc) < 200000 {
		c02CLI(c, o, doc, f)
	}
}

// guard02 runs one entry point in the calling goroutine and converts a panic into a violation.
func guard02(o *Obs, what, format, doc string, fn func()) (panicked bool) {
	defer func() {
		if x := recover(); x != nil {
			panicked = true
			st := string(debug.Stack())
			msg := fmt.Sprint(x)
			if strings.HasPrefix(msg, "verif: post-EOF read limit") {
				o.Fail("nonterminating", what+" ("+format+") keeps reading after end of input (> 1000 reads after EOF)\n"+Trunc(st, 1500), doc, "sig", "post-EOF reads without bound @ "+what)
				return
			}
			o.Fail("reader_panic", what+" ("+format+"): "+msg+"\n"+Trunc(st, 1500), doc, "sig", PanicSig(msg, st))
		}
	}()
	fn()
	return false
}

func c02Feed(c *Ctx, o *Obs, doc, f string) {
	fid := c02FormatID[f]
	switch m := newEC(doc); {
	case m.chunk > 0:
		o.Ev("source:a_few_bytes_per_read", 1)
	case m.failAt >= 0:
		o.Ev("source:read_error_midway", 1)
	default:
		o.Ev("source:plain", 1)
	}
	var delivered []*tree.Tree
	maxPost := 0
	note := func(e *eofCounter) {
		if e.postEOF > maxPost {
			maxPost = e.postEOF
		}
	}
	syncPanic := false
	// (a) the format's parser
	{
		ec := newEC(doc)
		syncPanic = guard02(o, "Parser.Parse", f, doc, func() {
			switch f {
			case "newick":
				t, err := newick.NewParser(ec).Parse()
				o.Ev(outcome("parse:"+f, err), 1)
				if err == nil {
					delivered = append(delivered, t)
				}
			case "nexus":
				n, err := nexus.NewParser(ec).Parse()
				o.Ev(outcome("parse:"+f, err), 1)
				if err == nil && n != nil {
					n.IterateTrees(func(_ string, t *tree.Tree) { delivered = append(delivered, t) })
					if n.HasTrees {
						if ft := n.FirstTree(); ft != nil {
							delivered = append(delivered, ft)
						}
					}
					_ = n.NTrees()
					_ = n.Alignment()
				}
			case "phyloxml":
				p, err := phyloxml.NewParser(ec).Parse()
				o.Ev(outcome("parse:"+f, err), 1)
				if err == nil && p != nil {
					p.IterateTrees(func(t *tree.Tree, e error) {
						if e == nil && t != nil {
							delivered = append(delivered, t)
						}
					})
					if t, e := p.FirstTree(); e == nil && t != nil {
						delivered = append(delivered, t)
					}
				}
			default:
				p, err := nextstrain.NewParser(ec).Parse()
				o.Ev(outcome("parse:"+f, err), 1)
				if err == nil && p != nil {
					p.IterateTrees(func(t *tree.Tree, e error) {
						if e == nil && t != nil {
							delivered = append(delivered, t)
						}
					})
					if t, e := p.FirstTree(); e == nil && t != nil {
						delivered = append(delivered, t)
					}
				}
			}
		}) || syncPanic
		note(ec)
		o.Asserts++
	}
	// (b) ReadTreeReader
	{
		ec := newEC(doc)
		syncPanic = guard02(o, "ReadTreeReader", f, doc, func() {
			t, err := utils.ReadTreeReader(bufio.NewReader(ec), fid)
			o.Ev(outcome("single:"+f, err), 1)
			if err == nil {
				if o.Check(t != nil, "nil_tree_without_error", "ReadTreeReader ("+f+") returned neither a tree nor an error", doc) {
					delivered = append(delivered, t)
				}
			}
		}) || syncPanic
		note(ec)
		o.Asserts++
	}
	// (c) the line splitter of the multi-tree Newick reader, in this goroutine first
	if f == "newick" {
		ec := newEC(doc)
		syncPanic = guard02(o, "ReadUntilSemiColon", f, doc, func() {
			br := bufio.NewReader(ec)
			n := 0
			for {
				_, e := fileutils.ReadUntilSemiColon(br)
				n++
				if e != nil {
					break
				}
				if n > len(doc)+10 {
					o.Fail("nonterminating", fmt.Sprintf("ReadUntilSemiColon returned %d pieces without error for a %d-byte document", n, len(doc)), doc, "sig", "splitter never reports the end")
					break
				}
			}
			o.Ev("split_pieces", n)
		}) || syncPanic
		note(ec)
		o.Asserts++
	}
	// (d) ReadMultiTrees: its goroutine cannot be recovered; a panic there kills this process and the driver
	// attributes the death to this case. Skipped when the same document already panicked above.
	if syncPanic {
		o.Ev("multi_skipped_after_sync_panic", 1)
	} else {
		ec := newEC(doc)
		ch := utils.ReadMultiTrees(bufio.NewReader(ec), fid)
		items, errs := 0, 0
		closed := false
		idle := 0
		for !closed {
			select {
			case it, ok := <-ch:
				if !ok {
					closed = true
					break
				}
				idle = 0
				items++
				if it.Err != nil {
					errs++
				} else if it.Tree != nil {
					if len(delivered) < 12 {
						delivered = append(delivered, it.Tree)
					}
				} else {
					o.Fail("nil_tree_without_error", "ReadMultiTrees ("+f+") sent an item with neither tree nor error", doc)
				}
				if items > len(doc)+10 {
					o.Fail("nonterminating", fmt.Sprintf("ReadMultiTrees sent %d items for a %d-byte document", items, len(doc)), doc, "sig", "unbounded item stream")
					closed = true
				}
			case <-time.After(200 * time.Millisecond):
				// logical decision: the producer goroutine is gone but the channel is neither closed nor filled
				if !readerGoroutineAlive() && len(ch) == 0 {
					idle++
					if idle >= 2 {
						o.Fail("channel_not_closed", "ReadMultiTrees ("+f+"): the reader goroutine has ended, the channel is empty and still open", doc, "sig", "channel left open")
						closed = true
					}
				}
			}
		}
		o.Asserts++
		o.Ev(fmt.Sprintf("multi:%s:items", f), items)
		if errs > 0 {
			o.Ev("multi:"+f+":error", 1)
		} else {
			o.Ev("multi:"+f+":ok", 1)
		}
		note(ec)
	}
	switch {
	case maxPost == 0:
		o.Ev("post_eof_reads:0", 1)
	case maxPost <= 2:
		o.Ev("post_eof_reads:1-2", 1)
	case maxPost <= 20:
		o.Ev("post_eof_reads:3-20", 1)
	default:
		o.Ev("post_eof_reads:21-1000", 1)
	}
	// (e) every delivered tree can be traversed, indexed and written
	if len(delivered) > 8 {
		delivered = delivered[:8]
	}
	for _, t := range delivered {
		c02Follow(o, t, doc, f)
	}
	o.Ev("trees_delivered", len(delivered))
}

func outcome(what string, err error) string {
	if err != nil {
		return what + ":error"
	}
	return what + ":ok"
}

func c02Follow(o *Obs, t *tree.Tree, doc, f string) {
	if t == nil {
		return
	}
	step := func(name string, fn func()) {
		o.Asserts++
		defer func() {
			if x := recover(); x != nil {
				st := string(debug.Stack())
				o.Fail("followup_panic", name+" on a tree delivered by the "+f+" reader: "+fmt.Sprint(x)+"\n"+Trunc(st, 1500), doc, "sig", PanicSig(fmt.Sprint(x), st))
			}
		}()
		fn()
	}
	ntips, nnodes := 0, 0
	step("Nodes/Tips/Edges", func() {
		nnodes = len(t.Nodes())
		ntips = len(t.Tips())
		t.Edges()
		t.TipEdges()
		t.InternalEdges()
		t.AllTipNames()
	})
	step("PreOrder/PostOrder", func() {
		t.PreOrder(func(c, p *tree.Node, e *tree.Edge) bool { return true })
		t.PostOrder(func(c, p *tree.Node, e *tree.Edge) bool { return true })
	})
	step("Newick", func() { _ = t.Newick() })
	step("Nexus", func() { _ = t.Nexus() })
	if nnodes <= 600 {
		// the PhyloXML writer builds its indentation by repeated concatenation (cubic in the nesting depth): slow, not a hang
		step("WritePhyloXML", func() { _, _ = phyloxml.WritePhyloXML(chanOf(t)) })
	}
	if ntips <= 10000 {
		step("ReinitIndexes", func() {
			if err := t.ReinitIndexes(); err == nil {
				_ = t.UpdateTipIndex()
				for _, e := range t.Edges() {
					_, _ = e.TopoDepth()
					_, _ = e.NumTipsRight(), e.NumTipsLeft()
				}
			}
		})
		step("ComputeDepths", func() { t.ComputeDepths() })
		step("Clone", func() { _ = t.Clone().Newick() })
	}
}

func c02CLI(c *Ctx, o *Obs, doc, f string) {
	in := tmpFile(c, "c02.in", doc)
	// a file whose name ends in .gz is decompressed by the readers: offer the raw bytes (not gzip at all),
	// a proper gzip of the document, or a gzip cut short, under such a name
	h := 0
	for i := 0; i < len(doc) && i < 64; i++ {
		h = h*31 + int(doc[i])
	}
	if h < 0 {
		h = -h
	}
	if h%3 != 0 {
		var zb bytes.Buffer
		zw := gzip.NewWriter(&zb)
		_, _ = zw.Write([]byte(doc))
		_ = zw.Close()
		content := []byte(doc)
		kind := "raw bytes under a .gz name"
		switch h % 3 {
		case 1:
			content, kind = zb.Bytes(), "gzip of the document"
		case 2:
			content, kind = zb.Bytes()[:(h/3)%(zb.Len()+1)], "gzip cut short"
		}
		in = filepath.Join(c.Tmp, "c02.in.gz")
		if err := os.WriteFile(in, content, 0o644); err != nil {
			panic(err)
		}
		o.Ev("cli_gz:"+kind, 1)
		// the library entry point that opens files by name
		o.Asserts++
		guard02(o, "utils.ReadTree("+kind+")", f, doc, func() { _, _ = utils.ReadTree(in, c02FormatID[f]) })
	}
	// read + write back through the shipped binary (reading, traversal and writing are what C02 covers)
	for _, args := range [][]string{{"reformat", "newick", "-i", in, "-f", f}, {"reformat", "nexus", "-i", in, "-f", f}} {
		res := runCLI(c, "", args...)
		o.Ev("cli:"+args[0]+":"+args[1], 1)
		if res.TimedOut {
			// decided on CPU seconds, not on the wall clock: a child that burnt > 100 CPU s on <= 200 kB is spinning
			if res.CPU > 100 {
				o.Fail("cli_nonterminating", fmt.Sprintf("gotree %s %s -f %s burnt %.0f CPU seconds without finishing", args[0], args[1], f, res.CPU), doc, "sig", "cli spins")
			} else {
				o.Inconclusive = "gotree " + args[0] + " did not finish within the wall-clock watchdog"
			}
			continue
		}
		o.Check(!res.Panic && !res.Signal, "cli_crash", "gotree "+strings.Join(args[:2], " ")+" -f "+f+": "+res.brief(), doc, "sig", PanicSig(firstLine(res.Stderr, "panic:"), res.Stderr))
	}
}

func firstLine(s, prefix string) string {
	for _, l := range strings.Split(s, "\n") {
		if strings.HasPrefix(l, prefix) || strings.HasPrefix(l, "fatal error:") {
			return l
		}
	}
	return ""
}
