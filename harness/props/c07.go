package props

import (
	"fmt"
	"math"
	"math/rand"
	"strconv"
	"strings"

	"github.com/evolbioinfo/gotree/tree"

	"verif/gen"
	"verif/ref"
)

func init() {
	Register(&Prop{
		ID:       "C07",
		Chunk:    60,
		NeedsCLI: true,
		Count: func(c *Ctx) int {
			if c.Thorough() {
				return 60000
			}
			return 2400
		},
		Rule: "case = one generated tree x thresholds taken from the tree's own values (exact ties, 1 ulp either side, below min, above max) for " +
			"collapse by length / support / depth, and Resolve under several seeds; one case in three works on an object re-rooted at another inner node or resolved beforehand (reference model read off the object); library and (every 8th case) the gotree collapse/resolve commands; " +
			"non-trivial = at least one threshold removed some but not all inner branches, or Resolve added a branch; distinct by start text",
		Assumptions: []string{
			"exact-set claim for length collapse on trees whose inner lengths are all present (absent = -1 sentinel is ambiguous for '<= l')",
			"the root split of a rooted tree is not asserted either way (quantifier)",
			"surviving splits carried by one branch keep length and support bitwise",
		},
		Run: runC07,
	})
}

type branchInfo struct {
	key  ref.Key
	node *ref.Node
}

// innerBranches lists (split, node below) for every inner non-root branch of the model.
func innerBranches(m *ref.Tree, tx *ref.Taxa) []branchInfo {
	var out []branchInfo
	var rec func(n *ref.Node, root bool)
	rec = func(n *ref.Node, root bool) {
		if !root && !n.IsTip() {
			k, _ := tx.KeyOf(nodeTipNames(n))
			out = append(out, branchInfo{k, n})
		}
		for _, c := range n.Children {
			rec(c, false)
		}
	}
	rec(m.Root, true)
	return out
}

func ulp(v float64, up bool) float64 {
	if up {
		return math.Nextafter(v, math.Inf(1))
	}
	return math.Nextafter(v, math.Inf(-1))
}

func runC07(c *Ctx, idx int, o *Obs) {
	r := c.Rng("C07", idx)
	maxTips := 80
	if c.Thorough() && idx%10 == 0 {
		maxTips = 400
	}
	n := gen.Size(r, 4, maxTips)
	opts := gen.Opts{
		N: n, Shape: gen.Pick(r, "random", "random", "random", "caterpillar", "balanced", "broom", "star"),
		RootDeg: gen.Pick(r, 0, 2, 2, 3, 3, 5), MultiP: gen.Pick(r, 0.0, 0.3, 0.6),
		Lens: gen.Pick(r, "all", "all", "all", "mixed"), LenCls: gen.Pick(r, "len", "tie", "dec"),
		SupP: gen.Pick(r, 0.3, 0.7, 1.0), SupCls: gen.Pick(r, "unit", "int"),
		InnerNameP: gen.Pick(r, 0.0, 0.3),
	}
	useCLI := idx%8 == 5
	R := gen.Tree(r, opts)
	start := R.Newick()
	// tree objects with a past: one case in three works on an object that was re-rooted at another inner node
	// (unrooted trees: same splits, the parent is no longer every node's first neighbour) or resolved (new nodes
	// whose parent was attached last) before it is collapsed; the text of that object is the case's start tree
	start0 := start
	prep := "none"
	prepK, prepSeed := r.Intn(1<<20), r.Int63()
	if idx%3 == 1 {
		prep = gen.Pick(r, "reroot", "resolve")
		if prep == "reroot" && len(R.Root.Children) < 3 {
			prep = "resolve"
		}
	}
	mk := func() *tree.Tree {
		t := mustParse(start0)
		switch prep {
		case "reroot":
			var cand []*tree.Node
			for _, x := range innerNodes(t) {
				if x.Nneigh() >= 3 {
					cand = append(cand, x)
				}
			}
			if len(cand) > 0 {
				t.Reroot(cand[prepK%len(cand)])
			}
		case "resolve":
			rand.Seed(prepSeed)
			t.Resolve()
		}
		return t
	}
	origin := ""
	if prep != "none" {
		start = mk().Newick()
		useCLI = false // the commands read texts; they are exercised by the other cases
		origin = fmt.Sprintf(" [the object was read from %s and prepared by %s (k=%d, seed=%d)]", Trunc(start0, 3000), prep, prepK, prepSeed)
		o.Ev("object_prepared_by:"+prep, 1)
	}
	o.Sample = Trunc(start, 300)
	o.SetFP(start)
	o.Class = fmt.Sprintf("%s/root%d/len-%s-%s", opts.Shape, len(R.Root.Children), opts.Lens, opts.LenCls)
	// the model is read off the object itself: the text of a re-rooted tree can hide a support behind a node name
	bm := modelOf(mk())
	before := reduce(bm, true)
	tx := before.tx
	rooted := len(bm.Root.Children) == 2
	ib := innerBranches(bm, tx)
	effective := 0

	var lens, sups []float64
	allInnerLens := true
	for _, b := range ib {
		if b.node.Len.Has {
			lens = append(lens, b.node.Len.V)
		} else {
			allInnerLens = false
		}
		if b.node.Sup.Has {
			sups = append(sups, b.node.Sup.V)
		}
	}
	thresholds := func(vals []float64) []float64 {
		out := []float64{-0.5, 0, 1e9}
		for _, k := range r.Perm(len(vals))[:min(3, len(vals))] {
			out = append(out, vals[k], ulp(vals[k], true), ulp(vals[k], false))
		}
		return out
	}

	// judge compares the tree after a collapse with the expectation.
	judge := func(what string, am *ref.Tree, pred func(nd *ref.Node, light int) (hit bool, decidable bool), removeRoot bool) {
		inp := start + origin + " ; " + what + " => " + Trunc(am.Newick(), 1500)
		after := reduce(am, true)
		if !o.Check(sameStrings(before.tx.Names, after.tx.Names), "collapse_tips", what+": tip set changed", inp) {
			return
		}
		removed, kept := 0, 0
		for _, b := range ib {
			s := before.splits[b.key]
			if s.Mult != 1 {
				continue // root split of a rooted tree: not asserted
			}
			hit, dec := pred(b.node, s.Light)
			if !dec {
				continue
			}
			_, present := after.splits[b.key]
			if hit {
				removed++
				o.Check(!present, "collapse_kept", fmt.Sprintf("%s: branch %s (len %v sup %v depth %d) meets the criterion but was kept", what, tx.Show(b.key), b.node.Len, b.node.Sup, s.Light), inp, "op", strings.SplitN(what, "(", 2)[0])
			} else {
				kept++
				if o.Check(present, "collapse_collateral", fmt.Sprintf("%s: branch %s (len %v sup %v depth %d) does not meet the criterion but is gone", what, tx.Show(b.key), b.node.Len, b.node.Sup, s.Light), inp, "op", strings.SplitN(what, "(", 2)[0]) {
					a := after.splits[b.key]
					if a.Mult == 1 {
						o.Check(math.Float64bits(a.Len) == math.Float64bits(s.Len) && a.HasLen == s.HasLen, "collapse_length_changed", fmt.Sprintf("%s: length of surviving branch %s: %v -> %v", what, tx.Show(b.key), s.Len, a.Len), inp)
						o.Check(a.Sups[0].Eq(s.Sups[0]), "collapse_support_changed", fmt.Sprintf("%s: support of surviving branch %s: %v -> %v", what, tx.Show(b.key), s.Sups[0], a.Sups[0]), inp)
					}
				}
			}
		}
		// nothing new, tips keep their lengths, distances unchanged unless a branch with length was removed
		for k, s := range after.splits {
			bs, ok := before.splits[k]
			if !o.Check(ok, "collapse_new_split", what+": split "+tx.Show(k)+" appeared", inp) {
				return
			}
			if s.Trivial && s.Mult == 1 && bs.Mult == 1 {
				o.Check(math.Float64bits(s.Len) == math.Float64bits(bs.Len) && s.HasLen == bs.HasLen, "collapse_tip_length", fmt.Sprintf("%s: tip branch %s length %v -> %v", what, tx.Show(k), bs.Len, s.Len), inp)
			}
		}
		// surviving named inner nodes keep their name on the same clade (same root => same orientation)
		if !removeRoot {
			ac := am.Clades()
			for _, b := range ib {
				if b.node.Name == "" {
					continue
				}
				if _, present := after.splits[b.key]; !present {
					continue
				}
				key := strings.Join(nodeTipNames(b.node), "\x00")
				if nd, ok := ac[key]; ok {
					o.Check(nd.Name == b.node.Name, "collapse_name_changed", fmt.Sprintf("%s: inner node %q is now %q", what, b.node.Name, nd.Name), inp)
				}
			}
		}
		if removed > 0 && kept > 0 {
			effective++
		}
	}

	// ---- by length -----------------------------------------------------------------------
	for _, l := range thresholds(lens) {
		removeRoot := r.Intn(4) == 0
		t := mk()
		t.CollapseShortBranches(l, removeRoot, false)
		o.Ev("CollapseShortBranches", 1)
		what := fmt.Sprintf("CollapseShortBranches(%v,root=%v)", l, removeRoot)
		judge(what, modelOf(t), func(nd *ref.Node, _ int) (bool, bool) {
			if !nd.Len.Has {
				return false, false
			}
			return nd.Len.V <= l, true
		}, removeRoot)
		checkStructure(o, t, what)
		_ = allInnerLens
	}
	// ---- by support ----------------------------------------------------------------------
	for _, s := range thresholds(sups) {
		removeRoot := r.Intn(4) == 0
		t := mk()
		t.CollapseLowSupport(s, removeRoot)
		o.Ev("CollapseLowSupport", 1)
		what := fmt.Sprintf("CollapseLowSupport(%v,root=%v)", s, removeRoot)
		judge(what, modelOf(t), func(nd *ref.Node, _ int) (bool, bool) {
			return nd.Sup.Has && nd.Sup.V < s, true
		}, removeRoot)
		checkStructure(o, t, what)
	}
	// ---- by depth ------------------------------------------------------------------------
	for k := 0; k < 5; k++ {
		a := r.Intn(n/2 + 2)
		b := a + r.Intn(4) - 1 // includes empty intervals
		switch k {
		case 3:
			a, b = 0, n
		case 4:
			a, b = 2, 2
		}
		removeRoot := r.Intn(4) == 0
		t := mk()
		if err := t.ReinitIndexes(); err != nil {
			o.Inconclusive = "ReinitIndexes: " + err.Error()
			return
		}
		err := t.CollapseTopoDepth(a, b, removeRoot, false)
		o.Ev("CollapseTopoDepth", 1)
		what := fmt.Sprintf("CollapseTopoDepth(%d,%d,root=%v)", a, b, removeRoot)
		if !o.Check(err == nil, "collapse_depth_error", what+": "+fmt.Sprint(err), start) {
			continue
		}
		judge(what, modelOf(t), func(_ *ref.Node, light int) (bool, bool) {
			return a <= light && light <= b, true
		}, removeRoot)
		checkStructure(o, t, what)
	}

	// ---- resolve -------------------------------------------------------------------------
	multif := false
	for i, nd := range allNodes(bm) {
		if !nd.IsTip() && ((i == 0 && len(nd.Children) > 3) || (i > 0 && len(nd.Children) > 2)) {
			multif = true
		}
	}
	judgeResolve := func(what string, am *ref.Tree) {
		inp := start + " ; " + what + " => " + Trunc(am.Newick(), 1500)
		after := reduce(am, true)
		if !o.Check(sameStrings(before.tx.Names, after.tx.Names), "resolve_tips", what+": tip set changed", inp) {
			return
		}
		wantRoot := 3
		if rooted {
			wantRoot = 2
		}
		if len(bm.Root.Children) == 3 {
			wantRoot = 3
		}
		o.Check(len(am.Root.Children) == wantRoot, "resolve_root_degree", fmt.Sprintf("%s: root has %d children, expected %d", what, len(am.Root.Children), wantRoot), inp)
		for _, nd := range allNodes(am)[1:] {
			if !nd.IsTip() && !o.Check(len(nd.Children) == 2, "resolve_not_binary", fmt.Sprintf("%s: inner node with %d children", what, len(nd.Children)), inp) {
				break
			}
		}
		for k, s := range before.splits {
			a, ok := after.splits[k]
			if !o.Check(ok, "resolve_lost_split", what+": split "+tx.Show(k)+" lost", inp) {
				return
			}
			if s.Mult == 1 && a.Mult == 1 {
				o.Check(math.Float64bits(a.Len) == math.Float64bits(s.Len) && a.HasLen == s.HasLen && a.Sups[0].Eq(s.Sups[0]), "resolve_changed_branch",
					fmt.Sprintf("%s: branch %s len %v->%v sup %v->%v", what, tx.Show(k), s.Len, a.Len, s.Sups[0], a.Sups[0]), inp)
			}
		}
		added := 0
		for k, a := range after.splits {
			if _, ok := before.splits[k]; ok {
				continue
			}
			added++
			o.Check(a.HasLen && a.Len == 0 && !a.Sups[0].Has, "resolve_added_branch", fmt.Sprintf("%s: added branch %s has length %v (has=%v) support %v", what, tx.Show(k), a.Len, a.HasLen, a.Sups[0]), inp)
		}
		for k, v := range before.dist {
			if !o.Check(closeTo(v, after.dist[k], before.scale), "resolve_distance", fmt.Sprintf("%s: distance %s %v -> %v", what, strings.Replace(k, "\x00", "|", 1), v, after.dist[k]), inp) {
				break
			}
		}
		if added > 0 {
			effective++
		}
		o.Check(multif == (added > 0), "resolve_added_count", fmt.Sprintf("%s: multifurcating=%v but %d branches added", what, multif, added), inp)
	}
	for k := 0; k < 4; k++ {
		seed := r.Int63()
		t := mk()
		prior := ""
		switch k {
		case 1: // the tree object has been used before: indexes, depths and cached subtree sizes are there
			_ = t.ReinitIndexes()
			prior = "ReinitIndexes; "
		case 2:
			_ = t.ReinitIndexes()
			t = t.Clone()
			prior = "ReinitIndexes; Clone; "
		case 3:
			t.ComputeDepths()
			_ = t.UpdateTipIndex()
			prior = "ComputeDepths; UpdateTipIndex; "
		}
		rand.Seed(seed)
		t.Resolve()
		o.Ev("Resolve", 1)
		what := fmt.Sprintf("%sResolve(seed %d)", prior, seed)
		judgeResolve(what, modelOf(t))
		checkStructure(o, t, what)
	}

	// ---- the same through the commands ----------------------------------------------------
	if useCLI {
		f := tmpFile(c, "in.nw", start+"\n")
		fl := func(v float64) string { return strconv.FormatFloat(v, 'g', -1, 64) }
		// the same tree in the middle of a file of three trees: the command must treat it the same way
		var others []string
		for j := 0; j < 2; j++ {
			m := gen.Tree(r, gen.Opts{N: gen.Size(r, 4, 25), Shape: "random", RootDeg: gen.Pick(r, 2, 3, 4), MultiP: gen.Pick(r, 0.0, 0.4),
				Lens: "all", LenCls: gen.Pick(r, "len", "tie"), SupP: 0.7, SupCls: "unit", Names: "simple"})
			others = append(others, m.Newick())
		}
		multiOK := strings.Count(start, ";") == 1 && !strings.ContainsAny(start, "\n\r")
		fm := tmpFile(c, "in3.nw", others[0]+"\n"+start+"\n"+others[1]+"\n")
		inArgs, inStdin, inMode := presentTrees(c, r, "in-alt", []string{start}, plainNewick(start))
		run := func(what string, args ...string) *ref.Tree {
			// the input is offered as a file, gzipped, on stdin or in another format
			var a2 []string
			for i := 0; i < len(args); i++ {
				if args[i] == "-i" && i+1 < len(args) && args[i+1] == f {
					a2 = append(a2, inArgs...)
					i++
					continue
				}
				a2 = append(a2, args[i])
			}
			what += " (input: " + inMode + ")"
			res, outMode := runCLIOut(c, r, inStdin, a2...)
			o.Ev("cli_output:"+outMode, 1)
			o.Ev("cli", 1)
			o.Ev("cli_input:"+inMode, 1)
			if !o.Check(res.Exit == 0 && !res.Panic, "cli_failed", what+": "+res.brief(), start) {
				return nil
			}
			ct, err := parseNewick(strings.TrimSpace(res.Stdout))
			if !o.Check(err == nil, "cli_output", fmt.Sprintf("%s: unreadable output %q: %v", what, Trunc(res.Stdout, 200), err), start) {
				return nil
			}
			single := modelOf(ct)
			if multiOK && args[0] != "resolve" {
				margs := append([]string{}, args...)
				for i := range margs {
					if margs[i] == f {
						margs[i] = fm
					}
				}
				res3 := runCLI(c, "", margs...)
				o.Ev("cli_multi", 1)
				inp3 := others[0] + "\n" + start + "\n" + others[1]
				if o.Check(res3.Exit == 0 && !res3.Panic, "cli_failed", what+" on a file of 3 trees: "+res3.brief(), inp3) {
					lines := strings.Split(strings.TrimSpace(res3.Stdout), "\n")
					if o.Check(len(lines) == 3, "cli_tree_count", fmt.Sprintf("%s on a file of 3 trees: %d output trees", what, len(lines)), inp3) {
						ct3, err := parseNewick(lines[1])
						if o.Check(err == nil, "cli_output", fmt.Sprintf("%s: unreadable line 2: %v", what, err), inp3) {
							d := ref.Diff(single.Root, modelOf(ct3).Root, "root", true)
							o.Check(d == "", "cli_multi_differs", what+": the second tree of a three-tree file is not treated like the same tree alone: "+d, inp3+" => "+Trunc(lines[1], 600), "cmd", args[1])
						}
					}
				}
			}
			return single
		}
		if len(lens) > 0 {
			l := lens[r.Intn(len(lens))]
			if m := run("gotree collapse length", "collapse", "length", "-i", f, "-l", fl(l)); m != nil {
				judge(fmt.Sprintf("gotree collapse length -l %v", l), m, func(nd *ref.Node, _ int) (bool, bool) {
					if !nd.Len.Has {
						return false, false
					}
					return nd.Len.V <= l, true
				}, false)
			}
		}
		if len(sups) > 0 {
			s := sups[r.Intn(len(sups))]
			if m := run("gotree collapse support", "collapse", "support", "-i", f, "-s", fl(s)); m != nil {
				judge(fmt.Sprintf("gotree collapse support -s %v", s), m, func(nd *ref.Node, _ int) (bool, bool) {
					return nd.Sup.Has && nd.Sup.V < s, true
				}, false)
			}
		}
		a, b := 2, 2+r.Intn(3)
		if m := run("gotree collapse depth", "collapse", "depth", "-i", f, "-m", strconv.Itoa(a), "-M", strconv.Itoa(b)); m != nil {
			judge(fmt.Sprintf("gotree collapse depth -m %d -M %d", a, b), m, func(_ *ref.Node, light int) (bool, bool) {
				return a <= light && light <= b, true
			}, false)
		}
		if m := run("gotree resolve", "resolve", "-i", f, "--seed", "7"); m != nil {
			judgeResolve("gotree resolve --seed 7", m)
		}
	}
	o.Nontrivial = effective > 0
	_ = tree.NIL_LENGTH
}
