// Package props holds one case runner per property. A case is fully determined by
// (VERIF_SEED, property id, tier, index); the worker prints one JSON observation per case.
package props

import (
	"crypto/sha1"
	"encoding/hex"
	"fmt"
	"hash/fnv"
	"math/rand"
	"os"
	"runtime/debug"
	"sort"
	"strings"
)

// Viol is one oracle failure. Kind + Match identify it for known-findings; Detail and Input are the witness.
type Viol struct {
	Kind   string            `json:"kind"`
	Detail string            `json:"detail"`
	Match  map[string]string `json:"match,omitempty"`
	Input  string            `json:"input,omitempty"`
}

// Obs is what the monitors observed on one case.
type Obs struct {
	Idx          int                 `json:"idx"`
	Class        string              `json:"class"`            // stratum of the case (shape/decoration/op…)
	FP           string              `json:"fp"`               // fingerprint of the literal case (distinctness)
	Nontrivial   bool                `json:"nontrivial"`       // satisfies the property's non-triviality rule
	Asserts      int                 `json:"asserts"`          // oracle assertions evaluated
	Events       map[string]int      `json:"events,omitempty"` // measured counters (ops, outcomes, hook events…)
	Viols        []Viol              `json:"viols,omitempty"`
	Inconclusive string              `json:"inconclusive,omitempty"`
	Sample       string              `json:"sample,omitempty"` // literal rendering of the case (truncated)
	Sets         map[string][]string `json:"sets,omitempty"`   // values whose distinct union is reported (e.g. interleaving hashes)
}

func (o *Obs) Ev(k string, n int) {
	if o.Events == nil {
		o.Events = map[string]int{}
	}
	o.Events[k] += n
}

func (o *Obs) AddSet(k, v string) {
	if o.Sets == nil {
		o.Sets = map[string][]string{}
	}
	for _, x := range o.Sets[k] {
		if x == v {
			return
		}
	}
	if len(o.Sets[k]) < 64 {
		o.Sets[k] = append(o.Sets[k], v)
	}
}

// Fail records a violation.
func (o *Obs) Fail(kind, detail, input string, match ...string) {
	v := Viol{Kind: kind, Detail: Trunc(detail, 1500), Input: Trunc(input, 6000)}
	if len(match) > 0 {
		v.Match = map[string]string{}
		for i := 0; i+1 < len(match); i += 2 {
			v.Match[match[i]] = match[i+1]
		}
	}
	if len(o.Viols) < 8 {
		o.Viols = append(o.Viols, v)
	}
}

// Check counts an assertion and records a violation when cond is false.
func (o *Obs) Check(cond bool, kind, detail, input string, match ...string) bool {
	o.Asserts++
	if !cond {
		o.Fail(kind, detail, input, match...)
	}
	return cond
}

func (o *Obs) SetFP(parts ...string) {
	h := sha1.New()
	for _, p := range parts {
		h.Write([]byte(p))
		h.Write([]byte{0})
	}
	o.FP = hex.EncodeToString(h.Sum(nil))[:16]
}

func Trunc(s string, n int) string {
	if len(s) > n {
		return s[:n] + fmt.Sprintf("…(+%d bytes)", len(s)-n)
	}
	return s
}

// Ctx carries the run parameters.
type Ctx struct {
	Seed   int64
	Tier   string // quick | thorough
	Gotree string // path of the CLI binary built from /repo (may be empty)
	Tmp    string // private scratch dir of this worker
}

func (c *Ctx) Thorough() bool { return c.Tier == "thorough" }

// Announce writes the literal case (document, schedule, history) to <Tmp>/case.blob before it is
// executed, so that the driver can attach it to the death of this process.
func (c *Ctx) Announce(s string) {
	if c.Tmp != "" {
		_ = os.WriteFile(c.Tmp+"/case.blob", []byte(s), 0o644)
	}
}

// Rng returns the PRNG of one case.
func (c *Ctx) Rng(prop string, idx int) *rand.Rand {
	h := fnv.New64a()
	fmt.Fprintf(h, "%d/%s/%d", c.Seed, prop, idx)
	return rand.New(rand.NewSource(int64(h.Sum64() & 0x7fffffffffffffff)))
}

// Prop is a property check.
type Prop struct {
	ID    string
	Count func(c *Ctx) int // number of cases of the tier
	Chunk int              // cases per child process
	Run   func(c *Ctx, idx int, o *Obs)
	// NeedsCLI: the driver must build the gotree binary. Race: run under the -race worker.
	NeedsCLI bool
	Race     bool
	// Rule is the non-triviality rule, reported in the evidence.
	Rule        string
	Assumptions []string
	// MinNontrivialFrac overrides the default floor (25 %).
	MinNontrivialFrac float64
	// CPULimit: CPU seconds one case may burn before the worker exits with status 97 (0 = no bound).
	CPULimit float64
	// Exhaustive: the case list enumerates a finite space completely.
	Exhaustive bool
}

var Registry = map[string]*Prop{}

func Register(p *Prop) { Registry[p.ID] = p }

func IDs() []string {
	var o []string
	for k := range Registry {
		o = append(o, k)
	}
	sort.Strings(o)
	return o
}

// RunCase executes one case, converting a panic in the calling goroutine into a violation.
func RunCase(p *Prop, c *Ctx, idx int) (o *Obs) {
	o = &Obs{Idx: idx}
	defer func() {
		if r := recover(); r != nil {
			st := string(debug.Stack())
			o.Fail("panic", fmt.Sprintf("%v\n%s", r, Trunc(st, 1200)), o.Sample, "sig", PanicSig(fmt.Sprint(r), st))
		}
	}()
	p.Run(c, idx, o)
	return o
}

// PanicSig reduces a panic to "message-class @ innermost gotree function".
func PanicSig(msg, stack string) string {
	m := msg
	for _, cut := range []string{"[", " with length", " out of range"} {
		if i := strings.Index(m, cut); i > 0 {
			m = m[:i]
		}
	}
	if len(m) > 60 {
		m = m[:60]
	}
	fn := ""
	for _, l := range strings.Split(stack, "\n") {
		l = strings.TrimSpace(l)
		if strings.HasPrefix(l, "github.com/evolbioinfo/gotree/") {
			fn = strings.TrimPrefix(l, "github.com/evolbioinfo/gotree/")
			if i := strings.LastIndex(fn, "("); i > 0 {
				fn = fn[:i]
			}
			break
		}
	}
	return strings.TrimSpace(m) + " @ " + fn
}

// Guard runs f and converts a panic into a violation of the given kind; returns true when f panicked.
func (o *Obs) Guard(kind, input string, f func()) (panicked bool) {
	defer func() {
		if r := recover(); r != nil {
			st := string(debug.Stack())
			o.Fail(kind, fmt.Sprintf("%v\n%s", r, Trunc(st, 1200)), input, "sig", PanicSig(fmt.Sprint(r), st))
			panicked = true
		}
	}()
	f()
	return false
}

func Env(k, def string) string {
	if v := os.Getenv(k); v != "" {
		return v
	}
	return def
}
