package props

import (
	"fmt"
	"strings"

	"github.com/evolbioinfo/gotree/io/newick"
	"github.com/evolbioinfo/gotree/tree"

	"verif/gen"
	"verif/mon"
	"verif/ref"
)

func parseNewick(s string) (*tree.Tree, error) {
	return newick.NewParser(strings.NewReader(s)).Parse()
}

func init() {
	Register(&Prop{
		ID:    "C01",
		Chunk: 250,
		Count: func(c *Ctx) int {
			if c.Thorough() {
				return 120000
			}
			return 4000
		},
		Rule: "case = generated model tree (shape x decoration x float class x name class stratified by index); " +
			"non-trivial = tree has an inner branch and at least one decoration (length/support/comment/inner name); distinct by Newick text",
		Assumptions: []string{
			"names are valid UTF-8 text without NUL; numbers finite and != -1; domain exactly as the quantifier of C01",
			"tree sizes <= 1000 tips in quick, <= 50000 in thorough (recursive writer depth)",
		},
		Run: runC01,
	})
}

var c01Shapes = []string{"random", "random", "random", "caterpillar", "balanced", "star", "broom"}
var c01Floats = []string{"int", "dec", "unit", "any", "edge", "mix", "len"}

func runC01(c *Ctx, idx int, o *Obs) {
	r := c.Rng("C01", idx)
	shape := c01Shapes[idx%len(c01Shapes)]
	fl := c01Floats[(idx/len(c01Shapes))%len(c01Floats)]
	names := gen.Pick(r, "simple", "hostile", "hostile")
	n := gen.Size(r, 2, 200)
	big := false
	if idx%400 == 399 { // a few large trees per tier
		big = true
		if c.Thorough() && idx%4000 == 3999 {
			n = 20000 + r.Intn(30000)
		} else {
			n = 500 + r.Intn(500)
		}
	}
	opts := gen.Opts{
		N: n, Shape: shape, RootDeg: gen.Pick(r, 0, 0, 2, 3, 6),
		MultiP: gen.Pick(r, 0.0, 0.2, 0.5),
		Lens:   gen.Pick(r, "all", "all", "mixed", "none"), LenCls: fl,
		SupP: gen.Pick(r, 0.0, 0.5, 1.0), SupCls: gen.Pick(r, fl, "unit", "int"),
		PValP:      gen.Pick(r, 0.0, 0.5),
		InnerNameP: gen.Pick(r, 0.0, 0.3, 1.0), RootNameP: gen.Pick(r, 0.0, 0.5),
		Names:    names,
		NodeComP: gen.Pick(r, 0.0, 0.2, 0.6), EdgeComP: gen.Pick(r, 0.0, 0.3),
	}
	if big {
		opts.Names = "simple"
	}
	R := gen.Tree(r, opts)
	text0 := R.Newick()
	o.Class = fmt.Sprintf("%s/%s/%s/root%d", shape, fl, names, len(R.Root.Children))
	if big {
		o.Class = "big/" + shape
	}
	o.Sample = Trunc(text0, 300)
	o.SetFP(text0)
	inner := false
	deco := false
	for _, ch := range R.Root.Children {
		if !ch.IsTip() {
			inner = true
		}
	}
	deco = strings.ContainsAny(text0, ":[") || opts.SupP > 0 || opts.InnerNameP > 0
	o.Nontrivial = inner && deco
	o.Ev("tips", n)

	// (A) writer alone: API-built tree -> text1, read by the independent reader
	tA := mon.Build(R)
	text1 := tA.Newick()
	m1, err := ref.ParseNewick(text1)
	if !o.Check(err == nil, "writer_unreadable", fmt.Sprintf("independent reader rejects the writer's text: %v", err), text1) {
		return
	}
	d := ref.Diff(R.Root, m1.Root, "root", true)
	o.Check(d == "", "writer_wrong", "text written for an API-built tree does not describe it: "+d, text1)
	o.Check(tA.String() == text1, "string_vs_newick", "String() and Newick() differ", text1)

	// (B) parser alone: the model's own text -> gotree parser -> accessors
	tB, err := parseNewick(text0)
	if !o.Check(err == nil, "parser_rejects", fmt.Sprintf("parser rejects a well-formed tree: %v", err), text0) {
		return
	}
	m2, err := mon.FromTree(tB)
	if !o.Check(err == nil, "parser_structure", fmt.Sprint(err), text0) {
		return
	}
	d = ref.Diff(R.Root, m2.Root, "root", true)
	o.Check(d == "", "parser_wrong", "parsed tree differs from what the text says: "+d, text0)
	if _, ps := mon.Walk(tB, false); len(ps) > 0 {
		o.Fail("parser_malformed", ps[0].Kind+": "+ps[0].Detail, text0)
	}

	// (C) round trip through both: text1 -> parser -> text2, byte-identical, and model-equal
	tC, err := parseNewick(text1)
	if !o.Check(err == nil, "roundtrip_rejects", fmt.Sprintf("parser rejects the writer's own text: %v", err), text1) {
		return
	}
	m3, err := mon.FromTree(tC)
	if err == nil {
		d = ref.Diff(R.Root, m3.Root, "root", true)
		o.Check(d == "", "roundtrip_differs", "write+parse changed the tree: "+d, text1)
	}
	text2 := tC.Newick()
	o.Check(text2 == text1, "rewrite_not_identical", fmt.Sprintf("second write differs: %q vs %q", Trunc(text1, 200), Trunc(text2, 200)), text1)
}
