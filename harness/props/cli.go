package props

import (
	"bytes"
	"compress/gzip"
	"context"
	"fmt"
	"math/rand"
	"os"
	"os/exec"
	"path/filepath"
	"strings"
	"syscall"
	"time"

	"github.com/evolbioinfo/gotree/io/nexus"
	"github.com/evolbioinfo/gotree/io/phyloxml"
	"github.com/evolbioinfo/gotree/tree"
)

// cliRes is the observation of one execution of the real gotree binary.
type cliRes struct {
	Stdout, Stderr string
	Exit           int  // -1 when killed by a signal
	Signal         bool // died of a signal (a Go panic exits with status 2 and a trace on stderr)
	TimedOut       bool
	Panic          bool    // stderr carries a Go panic / fatal error trace
	CPU            float64 // user+system CPU seconds of the child (rusage)
}

// runCLI executes the gotree binary built from /repo's working tree.
func runCLI(c *Ctx, stdin string, args ...string) cliRes {
	return runCLIT(c, 120*time.Second, stdin, args...)
}

// runCLIT is runCLI with a chosen wall-clock watchdog.
func runCLIT(c *Ctx, limit time.Duration, stdin string, args ...string) cliRes {
	return runBin(c, c.Gotree, nil, limit, stdin, args...)
}

// runBin executes a given build of the gotree command with extra environment.
func runBin(c *Ctx, bin string, env []string, limit time.Duration, stdin string, args ...string) cliRes {
	if bin == "" {
		panic("verif: VERIF_GOTREE not set")
	}
	ctx, cancel := context.WithTimeout(context.Background(), limit)
	defer cancel()
	cmd := exec.CommandContext(ctx, bin, args...)
	cmd.Stdin = bytes.NewBufferString(stdin)
	// bounded capture: a command that spins while printing must not take the worker down with it
	so, se := &headTail{head: 256 << 20, tail: 1 << 20}, &headTail{head: 4 << 20, tail: 1 << 20}
	cmd.Stdout, cmd.Stderr = so, se
	cmd.Dir = c.Tmp
	cmd.Env = append(append(os.Environ(), "GOTRACEBACK=single"), env...)
	err := cmd.Run()
	r := cliRes{Stdout: so.String(), Stderr: se.String()}
	seb := []byte(r.Stderr)
	if ps := cmd.ProcessState; ps != nil {
		r.CPU = ps.UserTime().Seconds() + ps.SystemTime().Seconds()
	}
	if ctx.Err() != nil {
		r.TimedOut = true
	}
	if err != nil {
		if ee, ok := err.(*exec.ExitError); ok {
			r.Exit = ee.ExitCode()
			if ws, ok := ee.Sys().(syscall.WaitStatus); ok && ws.Signaled() {
				r.Signal = true
			}
		} else {
			r.Exit = -2
		}
	}
	r.Panic = bytes.Contains(seb, []byte("panic:")) || bytes.Contains(seb, []byte("fatal error:")) || bytes.Contains(seb, []byte("goroutine 1 ["))
	return r
}

// tmpFile writes content into the worker's scratch directory.
func tmpFile(c *Ctx, name, content string) string {
	p := filepath.Join(c.Tmp, name)
	if err := os.WriteFile(p, []byte(content), 0o644); err != nil {
		panic(err)
	}
	return p
}

func (r cliRes) brief() string {
	return fmt.Sprintf("exit=%d signal=%v timeout=%v panic=%v stderr=%q", r.Exit, r.Signal, r.TimedOut, r.Panic, Trunc(r.Stderr, 400))
}

// readTmp reads a file a command wrote into the worker's scratch directory ("" when absent).
func readTmp(c *Ctx, name string) string {
	b, err := os.ReadFile(filepath.Join(c.Tmp, name))
	if err != nil {
		return ""
	}
	return string(b)
}

// presentTrees offers the same Newick trees to a command in one of several input modes: a plain file, a gzipped
// file, standard input (the documented default of the input option), or - when the texts carry nothing that the
// other formats cannot hold - a Nexus or PhyloXML file together with --format. It returns the arguments that
// replace "-i <file>" and the bytes for stdin.
func presentTrees(c *Ctx, r *rand.Rand, base string, texts []string, plain bool) (args []string, stdin string, mode string) {
	doc := strings.Join(texts, "\n") + "\n"
	modes := []string{"file", "file", "gz", "stdin", "file-crlf", "file-no-final-newline"}
	if plain {
		modes = append(modes, "nexus", "phyloxml")
	}
	mode = modes[r.Intn(len(modes))]
	switch mode {
	case "stdin":
		return nil, doc, mode
	case "file-crlf": // a file written on Windows
		if strings.ContainsAny(strings.Join(texts, ""), "\r\n") {
			mode = "file"
			break
		}
		return []string{"-i", tmpFile(c, base+".nw", strings.ReplaceAll(doc, "\n", "\r\n"))}, "", mode
	case "file-no-final-newline":
		return []string{"-i", tmpFile(c, base+".nw", strings.TrimSuffix(doc, "\n"))}, "", mode
	case "gz":
		var b bytes.Buffer
		parts := []string{doc}
		if len(texts) >= 2 && r.Intn(2) == 0 {
			// several gzip members one after the other (what "cat a.gz b.gz" gives): still one file of trees
			k := 1 + r.Intn(len(texts)-1)
			parts = []string{strings.Join(texts[:k], "\n") + "\n", strings.Join(texts[k:], "\n") + "\n"}
			mode = "gz-two-members"
		}
		for _, part := range parts {
			z := gzip.NewWriter(&b)
			_, _ = z.Write([]byte(part))
			_ = z.Close()
		}
		p := filepath.Join(c.Tmp, base+".nw.gz")
		if err := os.WriteFile(p, b.Bytes(), 0o644); err != nil {
			panic(err)
		}
		return []string{"-i", p}, "", mode
	case "nexus", "phyloxml":
		var ts []*tree.Tree
		for _, s := range texts {
			t, err := parseNewick(s)
			if err != nil {
				return []string{"-i", tmpFile(c, base+".nw", doc)}, "", "file"
			}
			ts = append(ts, t)
		}
		var out string
		var err error
		if mode == "nexus" {
			out, err = nexus.WriteNexus(chanOf(ts...), r.Intn(2) == 0)
		} else {
			out, err = phyloxml.WritePhyloXML(chanOf(ts...))
		}
		if err != nil {
			return []string{"-i", tmpFile(c, base+".nw", doc)}, "", "file"
		}
		ext := map[string]string{"nexus": ".nex", "phyloxml": ".xml"}[mode]
		return []string{"-i", tmpFile(c, base+ext, out), "--format", mode}, "", mode
	}
	return []string{"-i", tmpFile(c, base+".nw", doc)}, "", "file"
}

// plainNewick tells whether a Newick text only uses what Nexus and PhyloXML can carry as well
// (simple labels, no comments, no p-values).
func plainNewick(text string) bool {
	if strings.ContainsAny(text, "[]'\"<>&= \t\n\r/") {
		return false
	}
	return strings.Count(text, ";") == 1
}

// runCLIOut is runCLI, except that half of the time the command is told to write its result to a file (-o) and
// the returned Stdout is then what it left in that file.
func runCLIOut(c *Ctx, r *rand.Rand, stdin string, args ...string) (cliRes, string) {
	if r.Intn(2) == 0 {
		return runCLI(c, stdin, args...), "stdout"
	}
	p := filepath.Join(c.Tmp, "cli-result.out")
	_ = os.Remove(p)
	res := runCLI(c, stdin, append(append([]string{}, args...), "-o", p)...)
	b, _ := os.ReadFile(p)
	if strings.TrimSpace(res.Stdout) != "" && res.Exit == 0 {
		// something still went to stdout although a file was requested: keep both for the caller's checks
		res.Stdout = string(b) + res.Stdout
	} else {
		res.Stdout = string(b)
	}
	return res, "file"
}

// headTail keeps the first head bytes and the last tail bytes written to it and counts the rest.
type headTail struct {
	head, tail int
	h, t       []byte
	total      int64
}

func (w *headTail) Write(p []byte) (int, error) {
	n := len(p)
	w.total += int64(n)
	if len(w.h) < w.head {
		k := w.head - len(w.h)
		if k > len(p) {
			k = len(p)
		}
		w.h = append(w.h, p[:k]...)
		p = p[k:]
	}
	if len(p) > 0 {
		w.t = append(w.t, p...)
		if len(w.t) > 2*w.tail {
			w.t = append([]byte(nil), w.t[len(w.t)-w.tail:]...)
		}
	}
	return n, nil
}

func (w *headTail) String() string {
	t := w.t
	if len(t) > w.tail {
		t = t[len(t)-w.tail:]
	}
	if dropped := w.total - int64(len(w.h)) - int64(len(t)); dropped > 0 {
		return string(w.h) + fmt.Sprintf("\n[... %d bytes not kept ...]\n", dropped) + string(t)
	}
	return string(w.h) + string(t)
}
