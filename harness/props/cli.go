package props

import (
	"bytes"
	"compress/gzip"
	"context"
	"fmt"
	"math/rand"
	"os"
	"os/exec"
	"path/filepath"
	"strings"
	"syscall"
	"time"

	"github.com/evolbioinfo/gotree/io/nexus"
	"github.com/evolbioinfo/gotree/io/phyloxml"
	"github.com/evolbioinfo/gotree/tree"
)

// cliRes is the observation of one execution of the real gotree binary.
type cliRes struct {
	Stdout, Stderr string
	Exit           int  // -1 when killed by a signal
	Signal         bool // died of a signal (a Go panic exits with status 2 and a trace on stderr)
	TimedOut       bool
	Panic          bool    // stderr carries a Go panic / fatal error trace
	CPU            float64 // user+system CPU seconds of the child (rusage)
}

// runCLI executes the gotree binary built from /repo's working tree.
func runCLI(c *Ctx, stdin string, args ...string) cliRes {
	return runCLIT(c, 120*time.Second, stdin, args...)
}

// runCLIT is runCLI with a chosen wall-clock watchdog.
func runCLIT(c *Ctx, limit time.Duration, stdin string, args ...string) cliRes {
	return runBin(c, c.Gotree, nil, limit, stdin, args...)
}

// runBin executes a given build of the gotree command with extra environment.
func runBin(c *Ctx, bin string, env []string, limit time.Duration, stdin string, args ...string) cliRes {
	if bin == "" {
		panic("verif: VERIF_GOTREE not set")
	}
	ctx, cancel := context.WithTimeout(context.Background(), limit)
	defer cancel()
	cmd := exec.CommandContext(ctx, bin, args...)
	cmd.Stdin = bytes.NewBufferString(stdin)
	var so, se bytes.Buffer
	cmd.Stdout, cmd.Stderr = &so, &se
	cmd.Dir = c.Tmp
	cmd.Env = append(append(os.Environ(), "GOTRACEBACK=single"), env...)
	err := cmd.Run()
	r := cliRes{Stdout: so.String(), Stderr: se.String()}
	if ps := cmd.ProcessState; ps != nil {
		r.CPU = ps.UserTime().Seconds() + ps.SystemTime().Seconds()
	}
	if ctx.Err() != nil {
		r.TimedOut = true
	}
	if err != nil {
		if ee, ok := err.(*exec.ExitError); ok {
			r.Exit = ee.ExitCode()
			if ws, ok := ee.Sys().(syscall.WaitStatus); ok && ws.Signaled() {
				r.Signal = true
			}
		} else {
			r.Exit = -2
		}
	}
	r.Panic = bytes.Contains(se.Bytes(), []byte("panic:")) || bytes.Contains(se.Bytes(), []byte("fatal error:")) || bytes.Contains(se.Bytes(), []byte("goroutine 1 ["))
	return r
}

// tmpFile writes content into the worker's scratch directory.
func tmpFile(c *Ctx, name, content string) string {
	p := filepath.Join(c.Tmp, name)
	if err := os.WriteFile(p, []byte(content), 0o644); err != nil {
		panic(err)
	}
	return p
}

func (r cliRes) brief() string {
	return fmt.Sprintf("exit=%d signal=%v timeout=%v panic=%v stderr=%q", r.Exit, r.Signal, r.TimedOut, r.Panic, Trunc(r.Stderr, 400))
}

// readTmp reads a file a command wrote into the worker's scratch directory ("" when absent).
func readTmp(c *Ctx, name string) string {
	b, err := os.ReadFile(filepath.Join(c.Tmp, name))
	if err != nil {
		return ""
	}
	return string(b)
}

// presentTrees offers the same Newick trees to a command in one of several input modes: a plain file, a gzipped
// file, standard input (the documented default of the input option), or - when the texts carry nothing that the
// other formats cannot hold - a Nexus or PhyloXML file together with --format. It returns the arguments that
// replace "-i <file>" and the bytes for stdin.
func presentTrees(c *Ctx, r *rand.Rand, base string, texts []string, plain bool) (args []string, stdin string, mode string) {
	doc := strings.Join(texts, "\n") + "\n"
	modes := []string{"file", "file", "gz", "stdin"}
	if plain {
		modes = append(modes, "nexus", "phyloxml")
	}
	mode = modes[r.Intn(len(modes))]
	switch mode {
	case "stdin":
		return nil, doc, mode
	case "gz":
		var b bytes.Buffer
		z := gzip.NewWriter(&b)
		_, _ = z.Write([]byte(doc))
		_ = z.Close()
		p := filepath.Join(c.Tmp, base+".nw.gz")
		if err := os.WriteFile(p, b.Bytes(), 0o644); err != nil {
			panic(err)
		}
		return []string{"-i", p}, "", mode
	case "nexus", "phyloxml":
		var ts []*tree.Tree
		for _, s := range texts {
			t, err := parseNewick(s)
			if err != nil {
				return []string{"-i", tmpFile(c, base+".nw", doc)}, "", "file"
			}
			ts = append(ts, t)
		}
		var out string
		var err error
		if mode == "nexus" {
			out, err = nexus.WriteNexus(chanOf(ts...), r.Intn(2) == 0)
		} else {
			out, err = phyloxml.WritePhyloXML(chanOf(ts...))
		}
		if err != nil {
			return []string{"-i", tmpFile(c, base+".nw", doc)}, "", "file"
		}
		ext := map[string]string{"nexus": ".nex", "phyloxml": ".xml"}[mode]
		return []string{"-i", tmpFile(c, base+ext, out), "--format", mode}, "", mode
	}
	return []string{"-i", tmpFile(c, base+".nw", doc)}, "", "file"
}

// plainNewick tells whether a Newick text only uses what Nexus and PhyloXML can carry as well
// (simple labels, no comments, no p-values).
func plainNewick(text string) bool {
	if strings.ContainsAny(text, "[]'\"<>&= \t\n\r/") {
		return false
	}
	return strings.Count(text, ";") == 1
}

// runCLIOut is runCLI, except that half of the time the command is told to write its result to a file (-o) and
// the returned Stdout is then what it left in that file.
func runCLIOut(c *Ctx, r *rand.Rand, stdin string, args ...string) (cliRes, string) {
	if r.Intn(2) == 0 {
		return runCLI(c, stdin, args...), "stdout"
	}
	p := filepath.Join(c.Tmp, "cli-result.out")
	_ = os.Remove(p)
	res := runCLI(c, stdin, append(append([]string{}, args...), "-o", p)...)
	b, _ := os.ReadFile(p)
	if strings.TrimSpace(res.Stdout) != "" && res.Exit == 0 {
		// something still went to stdout although a file was requested: keep both for the caller's checks
		res.Stdout = string(b) + res.Stdout
	} else {
		res.Stdout = string(b)
	}
	return res, "file"
}
