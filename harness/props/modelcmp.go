package props

import (
	"fmt"
	"math"
	"sort"
	"strings"

	"github.com/evolbioinfo/gotree/tree"

	"verif/mon"
	"verif/ref"
)

// modelOf observes a live tree through its accessors.
func modelOf(t *tree.Tree) *ref.Tree {
	m, err := mon.FromTree(t)
	if err != nil {
		panic("verif: cannot walk tree: " + err.Error())
	}
	return m
}

func totalLen(m *ref.Tree) float64 {
	s := 0.0
	var rec func(n *ref.Node)
	rec = func(n *ref.Node) {
		s += math.Abs(n.Len.Z())
		for _, c := range n.Children {
			rec(c)
		}
	}
	rec(m.Root)
	return s
}

// closeTo: equal up to re-association of a sum bounded by scale.
func closeTo(a, b, scale float64) bool {
	if a == b {
		return true
	}
	return math.Abs(a-b) <= 1e-9*math.Max(math.Abs(a), math.Abs(b))+1e-12*scale
}

func sameStrings(a, b []string) bool {
	if len(a) != len(b) {
		return false
	}
	for i := range a {
		if a[i] != b[i] {
			return false
		}
	}
	return true
}

func sortedCopy(a []string) []string {
	o := append([]string(nil), a...)
	sort.Strings(o)
	return o
}

// reduction is the model of a tree "as a tree": tip set, split map, distances.
type reduction struct {
	m      *ref.Tree
	tx     *ref.Taxa
	splits map[ref.Key]*ref.Split
	dist   map[string]float64
	scale  float64
}

func reduce(m *ref.Tree, withDist bool) *reduction {
	tx := ref.NewTaxa(m.Tips())
	rd := &reduction{m: m, tx: tx, scale: totalLen(m)}
	if tx.Unique() {
		rd.splits = m.Splits(tx)
		if withDist {
			rd.dist = m.Dist(ref.MLen)
		}
	}
	return rd
}

func supsKey(s []ref.Num) string {
	var p []string
	for _, x := range s {
		p = append(p, x.String())
	}
	sort.Strings(p)
	return strings.Join(p, ",")
}

// sameTree compares two reductions: tip set, split set, per-split summed length, distances and
// (when sups) supports of splits carried by exactly one branch on both sides.
func sameTree(a, b *reduction, sups bool) string {
	if !sameStrings(a.tx.Names, b.tx.Names) {
		return fmt.Sprintf("tip sets differ: %d vs %d tips", len(a.tx.Names), len(b.tx.Names))
	}
	scale := math.Max(a.scale, b.scale)
	for k, s := range a.splits {
		t, ok := b.splits[k]
		if !ok {
			return fmt.Sprintf("split %s (light side %d) lost", a.tx.Show(k), s.Light)
		}
		if !closeTo(s.Len, t.Len, scale) {
			return fmt.Sprintf("length of split %s: %v vs %v", a.tx.Show(k), s.Len, t.Len)
		}
		if sups && s.Mult == 1 && t.Mult == 1 && !s.Sups[0].Eq(t.Sups[0]) {
			return fmt.Sprintf("support of untouched split %s: %v vs %v", a.tx.Show(k), s.Sups[0], t.Sups[0])
		}
	}
	for k, t := range b.splits {
		if _, ok := a.splits[k]; !ok {
			return fmt.Sprintf("split %s (light side %d) appeared", a.tx.Show(k), t.Light)
		}
	}
	if a.dist != nil && b.dist != nil {
		for k, v := range a.dist {
			w, ok := b.dist[k]
			if !ok {
				return "distance missing for " + strings.Replace(k, "\x00", "|", 1)
			}
			if !closeTo(v, w, scale) {
				return fmt.Sprintf("distance %s: %v vs %v", strings.Replace(k, "\x00", "|", 1), v, w)
			}
		}
	}
	return ""
}

func nodeTipNames(n *ref.Node) []string {
	var o []string
	var rec func(x *ref.Node)
	rec = func(x *ref.Node) {
		if x.IsTip() {
			o = append(o, x.Name)
		}
		for _, c := range x.Children {
			rec(c)
		}
	}
	rec(n)
	sort.Strings(o)
	return o
}

func setOf(xs []string) map[string]bool {
	m := map[string]bool{}
	for _, x := range xs {
		m[x] = true
	}
	return m
}

func mustParse(text string) *tree.Tree {
	t, err := parseNewick(text)
	if err != nil {
		panic("verif: gotree rejects a tree it wrote (or the generator's): " + err.Error() + " :: " + Trunc(text, 300))
	}
	return t
}
