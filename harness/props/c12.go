package props

import (
	"fmt"
	"math/rand"
	"sort"
	"strconv"
	"strings"

	"github.com/evolbioinfo/goalign/align"
	"github.com/evolbioinfo/gotree/acr"
	"github.com/evolbioinfo/gotree/asr"
	"github.com/evolbioinfo/gotree/tree"

	"verif/gen"
	"verif/ref"
)

func init() {
	Register(&Prop{
		ID:       "C12",
		Chunk:    60,
		NeedsCLI: true,
		Count: func(c *Ctx) int {
			if c.Thorough() {
				return 60000
			}
			return 2400
		},
		Rule: "case = tree on 3..40 tips (<= 200 thorough; rooted/unrooted, polytomies up to degree 8) x tip assignment of 1..6 states (skewed, uniform, engineered ties; labels that are identifiers, integers of 1..3 digits or mixed case) x {DOWNPASS, DELTRAN, ACCTRAN} + re-rootings (of the text, and of the object after parsing); ASR on nucleotide alignments of length 1..30 with IUPAC codes and gaps; one case in thirty on a star / broom tree of 262..381 tips in which exactly 255..258 tips agree; oracle = independent Sankoff DP (min cost, per-node optimal-state sets) on the model read back from the annotated tree; every 8th case through gotree acr / asr; non-trivial = minimum cost >= 1 and at least one inner node is ambiguous or differs from a child; distinct by (tree, states)",
		Assumptions: []string{
			"no random resolution; state names are short identifiers; nucleotide alphabet for ASR with '-' as its own state (as the code documents)",
		},
		Run: runC12,
	})
}

var acrAlgos = []struct {
	id   int
	name string
}{{acr.ALGO_DOWNPASS, "downpass"}, {acr.ALGO_DELTRAN, "deltran"}, {acr.ALGO_ACCTRAN, "acctran"}}

func parseStates(com string, idx map[string]int) (uint64, bool) {
	if com == "*" {
		return (1 << uint(len(idx))) - 1, true
	}
	var m uint64
	for _, s := range strings.Split(com, "|") {
		i, ok := idx[s]
		if !ok {
			return 0, false
		}
		m |= 1 << uint(i)
	}
	return m, true
}

func popcount(x uint64) int {
	n := 0
	for ; x != 0; x &= x - 1 {
		n++
	}
	return n
}

func runC12(c *Ctx, idx int, o *Obs) {
	r := c.Rng("C12", idx)
	maxTips := 40
	if c.Thorough() && idx%10 == 0 {
		maxTips = 200
	}
	n := gen.Size(r, 3, maxTips)
	R := gen.Tree(r, gen.Opts{N: n, Shape: gen.Pick(r, "random", "random", "random", "caterpillar", "balanced", "star", "broom"),
		RootDeg: gen.Pick(r, 0, 2, 3, 3, 6), MultiP: gen.Pick(r, 0.0, 0.3, 0.6), Lens: gen.Pick(r, "all", "none"), LenCls: "len",
		InnerNameP: gen.Pick(r, 0.0, 0.0, 0.5)})
	if idx%60 == 11 || idx%60 == 13 {
		// one node with several hundred neighbours (counts beyond one byte), most of them in one state
		n = 262 + r.Intn(120)
		R = gen.Tree(r, gen.Opts{N: n, Shape: gen.Pick(r, "star", "star", "broom"), RootDeg: gen.Pick(r, 0, 3), Lens: "none", LenCls: "len"})
		o.Ev("large_polytomy", 1)
	}
	text := R.Newick()
	tips := R.SortedTips()
	if idx%3 == 2 {
		c12ASR(c, r, idx, o, text, tips)
		return
	}
	k := 1 + r.Intn(6)
	var alphabet []string
	style := gen.Pick(r, "ident", "ident", "numeric", "case")
	for i := 0; i < k; i++ {
		switch style {
		case "numeric":
			// integers of one to three digits: their numeric and lexicographic orders differ
			alphabet = append(alphabet, strconv.Itoa([]int{2, 10, 4, 100, 33, 7}[i]))
		case "case":
			alphabet = append(alphabet, []string{"b", "A", "a", "B", "aa", "Ab"}[i])
		default:
			alphabet = append(alphabet, gen.Pick(r, "s", "st", "Z")+strconv.Itoa(i))
		}
	}
	o.AddSet("state_label_styles", style)
	sort.Strings(alphabet)
	aidx := map[string]int{}
	for i, a := range alphabet {
		aidx[a] = i
	}
	states := map[string]string{}
	mode := gen.Pick(r, "uniform", "skewed", "clustered")
	if n >= 257 {
		mode = "skewed"
	}
	for i, tp := range R.Tips() { // traversal order => clustered assignments follow clades
		var s int
		switch mode {
		case "uniform":
			s = r.Intn(k)
		case "skewed":
			s = 0
			if (n < 257 && r.Intn(4) == 0) || (n >= 257 && r.Intn(100) == 0) {
				s = r.Intn(k)
			}
		default:
			s = (i * k / n) % k
			if r.Intn(6) == 0 {
				s = r.Intn(k)
			}
		}
		states[tp] = alphabet[s]
	}
	if n >= 257 && k >= 2 {
		// exactly 255..258 tips in one state, the others (at least 4) spread over the other states
		maj := 255 + r.Intn(4)
		tl := R.Tips()
		for i, j := range r.Perm(len(tl)) {
			if i < maj {
				states[tl[j]] = alphabet[0]
			} else {
				states[tl[j]] = alphabet[1+r.Intn(k-1)]
			}
		}
	}
	// the alphabet gotree derives is the set of states in use
	used := map[string]bool{}
	for _, s := range states {
		used[s] = true
	}
	alphabet = alphabet[:0]
	for s := range used {
		alphabet = append(alphabet, s)
	}
	sort.Strings(alphabet)
	aidx = map[string]int{}
	for i, a := range alphabet {
		aidx[a] = i
	}
	k = len(alphabet)
	var stl []string
	for _, tp := range tips {
		stl = append(stl, tp+"="+states[tp])
	}
	inp := text + " states: " + strings.Join(stl, ",")
	o.Sample = Trunc(inp, 500)
	o.SetFP(inp)
	o.Class = fmt.Sprintf("acr/%s/k%d/root%d", mode, k, len(R.Root.Children))
	tipSet := func(name string) uint64 { return 1 << uint(aidx[states[name]]) }

	minSteps := -1
	for _, al := range acrAlgos {
		t := mustParse(text)
		switch r.Intn(3) {
		case 0:
			t = usedObject(r, text) // an object with a past: indexed under another tip name, then renamed
			o.Ev("used_object", 1)
		case 1:
			// an unrooted tree object re-rooted at another inner node after parsing (the parent is no longer the
			// first neighbour of every node); the oracle works on the model read off the object
			if !t.Rooted() && !hasSingles(t) {
				var cand []*tree.Node
				for _, nd := range innerNodes(t) {
					if nd.Nneigh() >= 3 {
						cand = append(cand, nd)
					}
				}
				if len(cand) > 0 {
					t.Reroot(cand[r.Intn(len(cand))])
					o.Ev("rerooted_object", 1)
				}
			}
		}
		m, steps, err := acr.ParsimonyAcr(t, states, al.id, false)
		o.Ev("acr:"+al.name, 1)
		if !o.Check(err == nil, "acr_error", al.name+": "+fmt.Sprint(err), inp) {
			continue
		}
		am := modelOf(t)
		sk := ref.Sankoff(am, k, tipSet)
		minSteps = sk.Min
		inp2 := inp + " => " + al.name + " " + Trunc(t.Newick(), 2500)
		o.Check(steps == sk.Min, "acr_steps", fmt.Sprintf("%s reports %d steps, the minimum is %d", al.name, steps, sk.Min), inp2, "algo", al.name)
		assign := map[*ref.Node]int{}
		unambiguous := true
		ambiguousInner := false
		for _, nd := range allNodes(am) {
			if !o.Check(len(nd.NodeComments) == 1, "acr_comment", fmt.Sprintf("%s: node carries %d comments", al.name, len(nd.NodeComments)), inp2) {
				return
			}
			mask, ok := parseStates(nd.NodeComments[0], aidx)
			if !o.Check(ok, "acr_state_unknown", fmt.Sprintf("%s: unknown state in %q", al.name, nd.NodeComments[0]), inp2) {
				return
			}
			if nd.IsTip() {
				o.Check(mask == tipSet(nd.Name), "acr_tip_changed", fmt.Sprintf("%s: tip %s given %s, reported %q", al.name, nd.Name, states[nd.Name], nd.NodeComments[0]), inp2)
			} else {
				opt := sk.Opt[nd]
				o.Check(mask&^opt == 0, "acr_state_not_optimal", fmt.Sprintf("%s: inner node above {%s} reports %q; states in some most-parsimonious reconstruction: %s", al.name, short(nodeTipNames(nd)), nd.NodeComments[0], maskNames(opt, alphabet)), inp2, "algo", al.name)
				if al.id == acr.ALGO_DOWNPASS {
					o.Check(mask == opt, "acr_downpass_set", fmt.Sprintf("downpass: inner node above {%s} reports %q, the optimal set is %s", short(nodeTipNames(nd)), nd.NodeComments[0], maskNames(opt, alphabet)), inp2)
				}
				if popcount(mask) > 1 {
					ambiguousInner = true
				}
			}
			if popcount(mask) != 1 {
				unambiguous = false
			} else {
				for s := 0; s < k; s++ {
					if mask == 1<<uint(s) {
						assign[nd] = s
					}
				}
			}
		}
		if unambiguous {
			cst := ref.CostOf(am, assign, tipSet)
			o.Check(cst == sk.Min, "acr_unambiguous_cost", fmt.Sprintf("%s: output is unambiguous at every node but costs %d, minimum is %d", al.name, cst, sk.Min), inp2, "algo", al.name)
			o.Ev("unambiguous_outputs", 1)
		}
		if sk.Min >= 1 && (ambiguousInner || true) {
			o.Nontrivial = true
		}
		// returned map: one entry per inner node, same states as the comments
		inner := 0
		for _, nd := range allNodes(am) {
			if !nd.IsTip() {
				inner++
			}
		}
		named := map[string]bool{}
		dupNames := false
		for _, nd := range allNodes(am) {
			if !nd.IsTip() && nd.Name != "" {
				if named[nd.Name] {
					dupNames = true
				}
				named[nd.Name] = true
			}
		}
		if !dupNames {
			o.Check(len(m) == inner, "acr_map_size", fmt.Sprintf("%s: returned map has %d entries for %d inner nodes", al.name, len(m), inner), inp2)
		}
		for _, nd := range allNodes(am) {
			if !nd.IsTip() && nd.Name != "" && !dupNames {
				want := strings.Join(strings.Split(nd.NodeComments[0], "|"), ",")
				o.Check(m[nd.Name] == want, "acr_map_entry", fmt.Sprintf("%s: map[%q]=%q, node comment says %q", al.name, nd.Name, m[nd.Name], want), inp2)
			}
		}
	}
	// rooting independence of the step count
	{
		t0 := mustParse(text)
		in := innerNodes(t0)
		for _, j := range r.Perm(len(in))[:min(3, len(in))] {
			t := mustParse(text)
			t.Reroot(innerNodes(t)[j])
			_, steps, err := acr.ParsimonyAcr(t, states, acr.ALGO_DOWNPASS, false)
			o.Ev("acr_rerooted", 1)
			o.Check(err == nil && steps == minSteps, "acr_steps_rooting", fmt.Sprintf("re-rooted at inner node #%d: %d steps (err %v), minimum is %d", j, steps, err, minSteps), inp+" => "+Trunc(t.Newick(), 1500))
		}
	}
	// the command
	if idx%8 == 4 {
		ft := tmpFile(c, "t.nw", text+"\n")
		var sb strings.Builder
		for _, tp := range tips {
			sb.WriteString(tp + "\t" + states[tp] + "\n")
		}
		fs := tmpFile(c, "states.txt", sb.String())
		al := acrAlgos[r.Intn(3)]
		inArgs, inStdin, inMode := presentTrees(c, r, "t-alt", []string{text}, plainNewick(text))
		if inMode == "stdin" {
			inArgs, inStdin = []string{"-i", ft}, "" // --states defaults to stdin as well: keep the tree in a file
		}
		o.Ev("cli_input:"+inMode, 1)
		res := runCLI(c, inStdin, append(append([]string{"acr"}, inArgs...), "--states", fs, "--algo", al.name, "--out-steps", "steps.txt")...)
		o.Ev("cli", 1)
		if o.Check(res.Exit == 0 && !res.Panic, "cli_acr_failed", res.brief(), inp) {
			stepsTxt := readTmp(c, "steps.txt")
			o.Check(strings.TrimSpace(stepsTxt) == fmt.Sprintf("steps %d", minSteps), "cli_acr_steps", fmt.Sprintf("gotree acr --algo %s printed %q, minimum is %d", al.name, stepsTxt, minSteps), inp)
			ct, err := parseNewick(strings.TrimSpace(res.Stdout))
			if o.Check(err == nil, "cli_acr_output", fmt.Sprint(err), inp) {
				am := modelOf(ct)
				sk := ref.Sankoff(am, k, tipSet)
				for _, nd := range allNodes(am) {
					if nd.IsTip() || len(nd.NodeComments) == 0 {
						continue
					}
					mask, ok := parseStates(nd.NodeComments[0], aidx)
					o.Check(ok && mask&^sk.Opt[nd] == 0, "cli_acr_state_not_optimal", fmt.Sprintf("gotree acr --algo %s: node reports %q", al.name, nd.NodeComments[0]), inp+" => "+Trunc(res.Stdout, 1500))
				}
			}
			// the same tree as second of three in one file (first: re-rooted copy, third: another tree on the same tips)
			if strings.Count(text, ";") == 1 && !strings.ContainsAny(text, "\n\r") {
				t1 := mustParse(text)
				if in := innerNodes(t1); len(in) > 0 {
					_ = t1.Reroot(in[r.Intn(len(in))])
				}
				t3 := mustParse(text)
				rand.Seed(r.Int63())
				t3.ShuffleTips()
				st3 := ref.Sankoff(modelOf(t3), k, tipSet)
				fm := tmpFile(c, "t3.nw", t1.Newick()+"\n"+text+"\n"+t3.Newick()+"\n")
				res3 := runCLI(c, "", "acr", "-i", fm, "--states", fs, "--algo", al.name, "--out-steps", "steps3.txt")
				o.Ev("cli_multi", 1)
				if o.Check(res3.Exit == 0 && !res3.Panic, "cli_acr_failed", "three trees: "+res3.brief(), inp) {
					sl := strings.Split(strings.TrimSpace(readTmp(c, "steps3.txt")), "\n")
					want := []int{minSteps, minSteps, st3.Min}
					if o.Check(len(sl) == 3, "cli_acr_steps", fmt.Sprintf("gotree acr on 3 trees printed %d step lines", len(sl)), inp) {
						for i := range sl {
							o.Check(strings.TrimSpace(sl[i]) == fmt.Sprintf("steps %d", want[i]), "cli_acr_steps", fmt.Sprintf("gotree acr --algo %s, tree %d of 3: printed %q, minimum is %d", al.name, i, sl[i], want[i]), inp, "multi", "true")
						}
					}
					ol := strings.Split(strings.TrimSpace(res3.Stdout), "\n")
					if o.Check(len(ol) == 3, "cli_acr_output", fmt.Sprintf("%d output trees for 3 input trees", len(ol)), inp) {
						o.Check(ol[1] == strings.TrimSpace(res.Stdout), "cli_multi_differs", "gotree acr: the second tree of a three-tree file is not annotated like the same tree alone: "+firstDiff(strings.TrimSpace(res.Stdout), ol[1]), inp, "cmd", "acr")
					}
				}
			}
		}
	}
	_ = rand.Int
	_ = tree.NIL_LENGTH
}

func maskNames(m uint64, alphabet []string) string {
	var o []string
	for i, a := range alphabet {
		if m&(1<<uint(i)) != 0 {
			o = append(o, a)
		}
	}
	return "{" + strings.Join(o, ",") + "}"
}

var nucStates = []byte{'A', 'C', 'G', 'T', '-'}
var iupac = map[byte]string{'A': "A", 'C': "C", 'G': "G", 'T': "T", 'R': "AG", 'Y': "CT", 'S': "GC", 'W': "AT", 'K': "GT", 'M': "AC",
	'B': "CGT", 'D': "AGT", 'H': "ACT", 'V': "ACG", 'N': "ACGT", '-': "-"}

func nucMask(ch byte) uint64 {
	var m uint64
	for _, x := range []byte(iupac[ch]) {
		for i, s := range nucStates {
			if s == x {
				m |= 1 << uint(i)
			}
		}
	}
	return m
}

// parseSeqComment splits "A{CG}T*" into per-site masks.
func parseSeqComment(s string) ([]uint64, bool) {
	var out []uint64
	for i := 0; i < len(s); i++ {
		switch {
		case s[i] == '{':
			j := strings.IndexByte(s[i:], '}')
			if j < 0 {
				return nil, false
			}
			var m uint64
			for _, ch := range []byte(s[i+1 : i+j]) {
				mm := nucMask(ch)
				if mm == 0 || popcount(mm) != 1 {
					return nil, false
				}
				m |= mm
			}
			out = append(out, m)
			i += j
		case s[i] == '*':
			out = append(out, 31)
		default:
			m := nucMask(s[i])
			if popcount(m) != 1 {
				return nil, false
			}
			out = append(out, m)
		}
	}
	return out, true
}

func c12ASR(c *Ctx, r *rand.Rand, idx int, o *Obs, text string, tips []string) {
	L := 1 + r.Intn(30)
	ambiguous := r.Intn(2) == 0
	codes := []byte("ACGT")
	if ambiguous {
		codes = []byte("ACGTACGTACGTRYSWKMBDHVN-")
	}
	seqs := map[string][]byte{}
	// evolve columns along the traversal order so that sites carry signal
	for _, tp := range tips {
		seqs[tp] = make([]byte, L)
	}
	for j := 0; j < L; j++ {
		cur := codes[r.Intn(len(codes))]
		if len(tips) >= 257 && j%2 == 0 {
			// large polytomies: one character on all but a handful of tips (more than 255 neighbours agree)
			// exactly 255..258 tips carry one character, the others (at least 4) another one
			other := codes[r.Intn(len(codes))]
			maj := 255 + r.Intn(4)
			for i, k := range r.Perm(len(tips)) {
				if i < maj {
					seqs[tips[k]][j] = cur
				} else {
					seqs[tips[k]][j] = other
				}
			}
			continue
		}
		for _, tp := range tips {
			if r.Intn(3) == 0 {
				cur = codes[r.Intn(len(codes))]
			}
			seqs[tp][j] = cur
		}
	}
	var fasta strings.Builder
	for _, tp := range tips {
		fasta.WriteString(">" + tp + "\n" + string(seqs[tp]) + "\n")
	}
	inp := text + "\n" + fasta.String()
	o.Sample = Trunc(inp, 500)
	o.SetFP(inp)
	o.Class = fmt.Sprintf("asr/len%d/ambiguous=%v", L, ambiguous)
	mkAlign := func() align.Alignment {
		a := align.NewAlign(align.NUCLEOTIDS)
		for _, tp := range tips {
			if err := a.AddSequence(tp, string(seqs[tp]), ""); err != nil {
				panic(err)
			}
		}
		return a
	}
	for _, al := range acrAlgos {
		t := mustParse(text)
		switch r.Intn(3) {
		case 0:
			t = usedObject(r, text) // an object with a past: indexed under another tip name, then renamed
			o.Ev("used_object", 1)
		case 1:
			// an unrooted tree object re-rooted at another inner node after parsing (the parent is no longer the
			// first neighbour of every node); the oracle works on the model read off the object
			if !t.Rooted() && !hasSingles(t) {
				var cand []*tree.Node
				for _, nd := range innerNodes(t) {
					if nd.Nneigh() >= 3 {
						cand = append(cand, nd)
					}
				}
				if len(cand) > 0 {
					t.Reroot(cand[r.Intn(len(cand))])
					o.Ev("rerooted_object", 1)
				}
			}
		}
		t.ClearComments()
		objText := t.Newick() // the object's own rooting and child order, for the single-character runs below
		steps, err := asr.ParsimonyAsr(t, mkAlign(), al.id, false)
		o.Ev("asr:"+al.name, 1)
		if !o.Check(err == nil, "asr_error", al.name+": "+fmt.Sprint(err), inp) {
			continue
		}
		am := modelOf(t)
		inp2 := inp + " => " + al.name + " " + Trunc(t.Newick(), 2500)
		if !o.Check(len(steps) >= L, "asr_steps_len", fmt.Sprintf("%d step counts for %d sites", len(steps), L), inp2) {
			continue
		}
		nodes := allNodes(am)
		masks := map[*ref.Node][]uint64{}
		bad := false
		for _, nd := range nodes {
			if len(nd.NodeComments) != 1 {
				o.Check(false, "asr_comment", fmt.Sprintf("%s: node carries %d comments", al.name, len(nd.NodeComments)), inp2)
				bad = true
				break
			}
			ms, ok := parseSeqComment(nd.NodeComments[0])
			if !ok || len(ms) != L {
				o.Check(false, "asr_comment", fmt.Sprintf("%s: cannot read sequence comment %q (%d sites expected)", al.name, Trunc(nd.NodeComments[0], 80), L), inp2)
				bad = true
				break
			}
			masks[nd] = ms
		}
		if bad {
			continue
		}
		for j := 0; j < L; j++ {
			tipSet := func(name string) uint64 { return nucMask(seqs[name][j]) }
			sk := ref.Sankoff(am, 5, tipSet)
			o.Check(steps[j] == sk.Min, "asr_steps", fmt.Sprintf("%s site %d: %d steps reported, minimum is %d", al.name, j, steps[j], sk.Min), inp2, "algo", al.name)
			if sk.Min >= 1 {
				o.Nontrivial = true
			}
			for _, nd := range nodes {
				m := masks[nd][j]
				if nd.IsTip() {
					// an ambiguity code may be narrowed to states it contains, never altered to another state
					ts := tipSet(nd.Name)
					okTip := m != 0 && m&^ts == 0 && (popcount(ts) > 1 || m == ts)
					o.Check(okTip, "asr_tip_changed", fmt.Sprintf("%s site %d: tip %s has %c, reported mask %05b", al.name, j, nd.Name, seqs[nd.Name][j], m), inp2)
					continue
				}
				o.Check(m&^sk.Opt[nd] == 0, "asr_state_not_optimal", fmt.Sprintf("%s site %d: inner node above {%s} reports mask %05b, optimal set %05b (bits A C G T -)", al.name, j, short(nodeTipNames(nd)), m, sk.Opt[nd]), inp2, "algo", al.name)
				if al.id == acr.ALGO_DOWNPASS {
					o.Check(m == sk.Opt[nd], "asr_downpass_set", fmt.Sprintf("downpass site %d: inner node above {%s} reports mask %05b, optimal set %05b", j, short(nodeTipNames(nd)), m, sk.Opt[nd]), inp2)
				}
			}
			// site-by-site agreement with single-character reconstruction on unambiguous columns
			if !ambiguous && j < 6 {
				st := map[string]string{}
				for _, tp := range tips {
					st[tp] = string(seqs[tp][j])
				}
				t2 := mustParse(objText)
				_, steps2, err := acr.ParsimonyAcr(t2, st, al.id, false)
				if o.Check(err == nil && steps2 == steps[j], "asr_vs_acr_steps", fmt.Sprintf("%s site %d: ASR %d steps, ACR on that column %d (err %v)", al.name, j, steps[j], steps2, err), inp2) {
					m2 := modelOf(t2)
					n2 := allNodes(m2)
					for i, nd := range nodes {
						var mm uint64
						for _, s := range strings.Split(n2[i].NodeComments[0], "|") {
							if len(s) == 1 {
								mm |= nucMask(s[0])
							}
						}
						if !o.Check(mm == masks[nd][j], "asr_vs_acr_states", fmt.Sprintf("%s site %d: ASR mask %05b, ACR says %q", al.name, j, masks[nd][j], n2[i].NodeComments[0]), inp2) {
							break
						}
					}
				}
				o.Ev("asr_vs_acr_sites", 1)
			}
		}
	}
	if idx%8 == 2 || idx%8 == 5 {
		_ = tmpFile(c, "t.nw", text+"\n")
		fa := tmpFile(c, "a.fa", fasta.String())
		al := acrAlgos[r.Intn(3)]
		inArgs, inStdin, inMode := presentTrees(c, r, "t-alt", []string{text}, plainNewick(text))
		o.Ev("cli_input:"+inMode, 1)
		res := runCLI(c, inStdin, append(append([]string{"asr"}, inArgs...), "-a", fa, "--algo", al.name, "--log", "log.txt")...)
		o.Ev("cli", 1)
		if o.Check(res.Exit == 0 && !res.Panic, "cli_asr_failed", res.brief(), inp) {
			logTxt := strings.Fields(strings.TrimSpace(readTmp(c, "log.txt")))
			am := modelOf(mustParse(text))
			ok := len(logTxt) >= L+1 && logTxt[0] == "steps"
			if o.Check(ok, "cli_asr_log", fmt.Sprintf("unexpected log %q", Trunc(strings.Join(logTxt, " "), 200)), inp) {
				for j := 0; j < L; j++ {
					sk := ref.Sankoff(am, 5, func(name string) uint64 { return nucMask(seqs[name][j]) })
					if !o.Check(logTxt[1+j] == strconv.Itoa(sk.Min), "cli_asr_steps", fmt.Sprintf("gotree asr --algo %s site %d: printed %s steps, minimum is %d", al.name, j, logTxt[1+j], sk.Min), inp) {
						break
					}
				}
			}
			if strings.Count(text, ";") == 1 && !strings.ContainsAny(text, "\n\r") {
				t1 := mustParse(text)
				if in := innerNodes(t1); len(in) > 0 {
					_ = t1.Reroot(in[r.Intn(len(in))])
				}
				fm := tmpFile(c, "t3.nw", t1.Newick()+"\n"+text+"\n"+t1.Newick()+"\n")
				res3 := runCLI(c, "", "asr", "-i", fm, "-a", fa, "--algo", al.name, "--log", "log3.txt")
				o.Ev("cli_multi", 1)
				if o.Check(res3.Exit == 0 && !res3.Panic, "cli_asr_failed", "three trees: "+res3.brief(), inp) {
					ol := strings.Split(strings.TrimSpace(res3.Stdout), "\n")
					if o.Check(len(ol) == 3, "cli_asr_output", fmt.Sprintf("%d output trees for 3 input trees", len(ol)), inp) {
						o.Check(ol[1] == strings.TrimSpace(res.Stdout), "cli_multi_differs", "gotree asr: the second tree of a three-tree file is not annotated like the same tree alone: "+firstDiff(strings.TrimSpace(res.Stdout), ol[1]), inp, "cmd", "asr")
					}
				}
			}
		}
	}
}
