package props

import (
	"fmt"
	"math"
	"math/rand"
	"sort"
	"strings"

	"github.com/evolbioinfo/gotree/hashmap"
	"github.com/evolbioinfo/gotree/tree"

	"verif/gen"
	"verif/mon"
	"verif/ref"
)

func init() {
	Register(&Prop{
		ID:    "C04",
		Chunk: 50,
		Count: func(c *Ctx) int {
			if c.Thorough() {
				return 50000
			}
			return 2000
		},
		Rule: "case kinds by index: (index) ReinitIndexes on a generated tree / after an edit history, every branch's bitset, tip counts, depth and tip ranks against the walk; (pairs) all pairs of branches of two presentations or two trees on the same taxa: SameBipartition <=> HashEquals <=> model split equality, equal => equal HashCode; (map) random AddEdgeCount/PutEdgeValue/Value/Edges sequences against a shadow map over capacities {1,2,3,7,8,64,100,128,1000} x load factors {.05,.5,.75,1,2,10}; (quartet) 24x24 presentations of two 4-subsets (equal, differing in one taxon, or different but engineered to collide under polynomial hashes of the sorted indexes) and Quartets() into a HashMap; non-trivial = at least one inner branch examined / one rehash happened / one resolved quartet; distinct by input",
		Assumptions: []string{
			"capacity >= 1 and load factor > 0 (capacity 0 cannot hold a bucket, load factor 0 doubles on every insertion)",
			"bitset orientation: the recorded bitset must be the set of tips on one side of the branch (either side), sized to the number of tips; the two tip counts are checked per side",
			"all-pairs part limited to trees <= 150 tips quick / 300 thorough",
		},
		Run: runC04,
	})
}

// indexMonitor checks every branch's recorded split against the walked structure.
func indexMonitor(o *Obs, t *tree.Tree, ctx string) bool {
	w, ps := mon.Walk(t, false)
	if len(ps) > 0 {
		o.Fail("index_structure", ps[0].Kind+": "+ps[0].Detail, ctx)
		return false
	}
	var names []string
	for _, n := range w.Nodes {
		if n.Tip() {
			names = append(names, n.Name())
		}
	}
	sort.Strings(names)
	ntips := len(names)
	for i, nm := range names {
		k, err := t.TipIndex(nm)
		if !o.Check(err == nil && k == i, "tip_rank", fmt.Sprintf("TipIndex(%q)=%d (err %v), rank in sorted names is %d", nm, k, err, i), ctx) {
			return false
		}
	}
	ok := true
	for _, e := range w.Edges {
		var below []string
		namesBelow(e.Right(), e.Left(), &below)
		bs := e.Bitset()
		if !o.Check(bs != nil, "bitset_nil", "branch without a bitset after ReinitIndexes", ctx) {
			return false
		}
		if !o.Check(int(bs.Len()) == ntips, "bitset_width", fmt.Sprintf("bitset has %d bits for %d tips", bs.Len(), ntips), ctx) {
			return false
		}
		in := setOf(below)
		same, compl := true, true
		for i, nm := range names {
			b := bs.Test(uint(i))
			if b != in[nm] {
				same = false
			}
			if b == in[nm] {
				compl = false
			}
		}
		ok = o.Check(same || compl, "bitset_wrong", fmt.Sprintf("bitset of the branch above {%s} is neither that set nor its complement: %s", short(sortedCopy(below)), e.DumpBitSet()), ctx) && ok
		ok = o.Check(e.NumTipsRight() == len(below) && e.NumTipsLeft() == ntips-len(below), "tip_counts",
			fmt.Sprintf("branch above {%s}: NumTipsRight=%d NumTipsLeft=%d, walk says %d / %d", short(sortedCopy(below)), e.NumTipsRight(), e.NumTipsLeft(), len(below), ntips-len(below)), ctx) && ok
		d, err := e.TopoDepth()
		want := len(below)
		if ntips-want < want {
			want = ntips - want
		}
		ok = o.Check(err == nil && d == want, "topo_depth", fmt.Sprintf("TopoDepth=%d (err %v), light side is %d", d, err, want), ctx) && ok
		if !ok {
			return false
		}
	}
	o.Ev("branches_indexed", len(w.Edges))
	return ok
}

// edgeKeys maps every branch of an indexed tree to its canonical model split.
func edgeKeys(t *tree.Tree, tx *ref.Taxa) map[*tree.Edge]ref.Key {
	res := map[*tree.Edge]ref.Key{}
	for _, e := range t.Edges() {
		var below []string
		namesBelow(e.Right(), e.Left(), &below)
		k, _ := tx.KeyOf(below)
		res[e] = k
	}
	return res
}

func runC04(c *Ctx, idx int, o *Obs) {
	r := c.Rng("C04", idx)
	switch idx % 5 {
	case 0, 1:
		c04Pairs(c, r, idx, o)
	case 2:
		c04Map(c, r, idx, o)
	case 3:
		c04Quartets(c, r, idx, o)
	default:
		c04History(c, r, idx, o)
	}
}

func c04Tree(r *rand.Rand, n int, names []string) *ref.Tree {
	R := gen.Tree(r, gen.Opts{
		N: n, Shape: gen.Pick(r, "random", "random", "random", "caterpillar", "balanced", "broom", "star"),
		RootDeg: gen.Pick(r, 0, 2, 3, 3, 5), MultiP: gen.Pick(r, 0.0, 0.2, 0.5),
		Lens: gen.Pick(r, "all", "mixed", "none"), LenCls: "len", SupP: 0.5, SupCls: "unit",
	})
	if names != nil {
		p := r.Perm(len(names))
		for i, tp := range modelTips(R) {
			tp.Name = names[p[i]]
		}
	}
	return R
}

func c04Pairs(c *Ctx, r *rand.Rand, idx int, o *Obs) {
	maxTips := 150
	if c.Thorough() {
		maxTips = 300
	}
	n := gen.Size(r, 3, maxTips)
	names := gen.Names(r, n, gen.Pick(r, "simple", "hostile"))
	A := c04Tree(r, n, names)
	textA := A.Newick()
	ta := mustParse(textA)
	variant := gen.Pick(r, "reroot", "rotate", "sort", "unroot", "independent", "contract", "refine", "clone")
	var tb *tree.Tree
	switch variant {
	case "independent":
		tb = mustParse(c04Tree(r, n, names).Newick())
	default:
		tb = mustParse(textA)
	}
	switch variant {
	case "reroot":
		in := innerNodes(tb)
		tb.Reroot(in[r.Intn(len(in))])
	case "rotate":
		rand.Seed(r.Int63())
		tb.RotateInternalNodes()
	case "sort":
		tb.SortNeighborsByTips()
	case "unroot":
		tb.UnRoot()
	case "contract":
		es := tb.Edges()
		tb.RemoveEdges(false, false, es[r.Intn(len(es))], es[r.Intn(len(es))])
	case "refine":
		rand.Seed(r.Int63())
		tb.Resolve()
	case "clone":
		tb = tb.Clone()
	}
	o.Class = "pairs/" + variant
	inp := textA + " vs(" + variant + ") " + Trunc(tb.Newick(), 3000)
	o.Sample = Trunc(inp, 400)
	o.SetFP(inp)
	if err := ta.ReinitIndexes(); err != nil {
		o.Inconclusive = err.Error()
		return
	}
	if err := tb.ReinitIndexes(); err != nil {
		o.Inconclusive = err.Error()
		return
	}
	if !indexMonitor(o, ta, textA) || !indexMonitor(o, tb, inp) {
		return
	}
	tx := ref.NewTaxa(names)
	ka, kb := edgeKeys(ta, tx), edgeKeys(tb, tx)
	ea, eb := ta.Edges(), tb.Edges()
	inner := 0
	byKeyB := map[ref.Key]bool{}
	for _, e := range eb {
		byKeyB[kb[e]] = true
	}
	for _, e1 := range ea {
		if !e1.Right().Tip() {
			inner++
		}
		for _, e2 := range append(append([]*tree.Edge{}, eb...), ea...) {
			k2, ok := kb[e2]
			if !ok {
				k2 = ka[e2]
			}
			eq := ka[e1] == k2
			sb := e1.SameBipartition(e2)
			he := e1.HashEquals(e2)
			o.Asserts += 2
			if sb != eq || he != eq {
				o.Fail("split_equality", fmt.Sprintf("branches %s and %s: model equal=%v SameBipartition=%v HashEquals=%v", tx.Show(ka[e1]), tx.Show(k2), eq, sb, he), inp)
				return
			}
			if eq {
				o.Asserts++
				if e1.HashCode() != e2.HashCode() {
					o.Fail("equal_splits_hash_differently", fmt.Sprintf("split %s: HashCode %d vs %d (orientation/rooting dependent hash)", tx.Show(k2), e1.HashCode(), e2.HashCode()), inp)
					return
				}
			}
		}
		// FindEdge on pairs of unrooted presentations (tip-ness and triviality coincide there)
		if !ta.Rooted() && !tb.Rooted() {
			f, err := e1.FindEdge(eb)
			o.Check(err == nil && (f != nil) == byKeyB[ka[e1]], "find_edge", fmt.Sprintf("FindEdge(%s)=%v err=%v, model says present=%v", tx.Show(ka[e1]), f != nil, err, byKeyB[ka[e1]]), inp)
		}
	}
	o.Ev("branch_pairs", len(ea)*(len(ea)+len(eb)))
	o.Nontrivial = inner > 0
}

func c04History(c *Ctx, r *rand.Rand, idx int, o *Obs) {
	n := gen.Size(r, 3, 120)
	R := c04Tree(r, n, nil)
	start := R.Newick()
	t := mustParse(start)
	h := &hist{r: r, t: t}
	o.Class = "index_after_history"
	o.Sample = Trunc(start, 300)
	if t.ReinitIndexes() == nil {
		indexMonitor(o, t, start)
	}
	k := 3 + r.Intn(12)
	succ := 0
	for s := 0; s < k; s++ {
		o.Sample = Trunc(start, 1500) + " :: " + Trunc(strings.Join(h.log, " ; "), 2500)
		name, _, ok := h.step()
		if name == "" {
			break
		}
		if !ok {
			continue
		}
		succ++
		if r.Intn(2) == 0 || s == k-1 {
			ctx := start + " :: " + strings.Join(h.log, " ; ")
			if err := h.t.ReinitIndexes(); err != nil {
				o.Ev("reinit_error", 1)
				continue
			}
			if !indexMonitor(o, h.t, ctx) {
				return
			}
			o.Ev("index_checks", 1)
			// Reroot recomputes the indexes of an indexed tree by itself: what it leaves is monitored as it is
			if !h.t.Rooted() && !hasSingles(h.t) && r.Intn(2) == 0 {
				var cand []*tree.Node
				for _, nd := range innerNodes(h.t) {
					if nd.Nneigh() >= 3 && nd != h.t.Root() {
						cand = append(cand, nd)
					}
				}
				if len(cand) > 0 {
					if err := h.t.Reroot(cand[r.Intn(len(cand))]); err == nil {
						h.log = append(h.log, "Reroot(inner node) [indexes as left by Reroot]")
						h.pendingOK = h.pendingOK && true
						if !indexMonitor(o, h.t, ctx+" ; Reroot(inner node), indexes as left by Reroot") {
							return
						}
						o.Ev("index_checks_after_reroot_without_reinit", 1)
					}
				}
			}
		}
	}
	o.SetFP(start, strings.Join(h.log, ";"))
	o.Nontrivial = succ >= 2
}

type shadow struct {
	count int
	len   float64
}

func c04Map(c *Ctx, r *rand.Rand, idx int, o *Obs) {
	caps := []uint64{1, 2, 3, 7, 8, 64, 100, 128, 1000}
	lfs := []float64{0.05, 0.5, 0.75, 1, 2, 10}
	capa := caps[(idx/5)%len(caps)]
	lf := lfs[(idx/5/len(caps))%len(lfs)]
	n := gen.Size(r, 4, 80)
	names := gen.Names(r, n, "simple")
	tx := ref.NewTaxa(names)
	// several presentations of overlapping split sets
	var trees []*tree.Tree
	base := c04Tree(r, n, names)
	for k := 0; k < 4; k++ {
		var t *tree.Tree
		if k%2 == 0 {
			t = mustParse(base.Newick())
			in := innerNodes(t)
			t.Reroot(in[r.Intn(len(in))])
			rand.Seed(r.Int63())
			t.RotateInternalNodes()
		} else {
			t = mustParse(c04Tree(r, n, names).Newick())
		}
		if err := t.ReinitIndexes(); err != nil {
			o.Inconclusive = err.Error()
			return
		}
		trees = append(trees, t)
	}
	type ke struct {
		e *tree.Edge
		k ref.Key
	}
	var pool []ke
	for _, t := range trees {
		for e, k := range edgeKeys(t, tx) {
			pool = append(pool, ke{e, k})
		}
	}
	sort.Slice(pool, func(i, j int) bool {
		if pool[i].k != pool[j].k {
			return pool[i].k < pool[j].k
		}
		return fmt.Sprintf("%p", pool[i].e) < fmt.Sprintf("%p", pool[j].e)
	})
	o.Class = fmt.Sprintf("map/cap%d/lf%v", capa, lf)
	o.Sample = fmt.Sprintf("capacity=%d loadfactor=%v keys from %d presentations of %d taxa; base %s", capa, lf, len(trees), n, Trunc(base.Newick(), 200))
	ix := tree.NewEdgeIndex(capa, lf)
	sh := map[ref.Key]*shadow{}
	nops := 200 + r.Intn(1800)
	var oplog []string
	o.SetFP(o.Sample, fmt.Sprint(nops))
	for i := 0; i < nops; i++ {
		p := pool[r.Intn(len(pool))]
		ctx := func() string { return o.Sample + " ; last ops: " + strings.Join(oplog[max(0, len(oplog)-12):], " ") }
		switch r.Intn(10) {
		case 0, 1, 2, 3:
			oplog = append(oplog, "add:"+tx.Show(p.k))
			if err := ix.AddEdgeCount(p.e); err != nil {
				o.Fail("map_add_error", err.Error(), ctx())
				return
			}
			if s := sh[p.k]; s != nil {
				s.count++
				s.len += p.e.Length()
			} else {
				sh[p.k] = &shadow{1, p.e.Length()}
			}
		case 4, 5:
			cnt, l := r.Intn(50), gen.Float(r, "len")
			oplog = append(oplog, fmt.Sprintf("put:%s=%d", tx.Show(p.k), cnt))
			if err := ix.PutEdgeValue(p.e, cnt, l); err != nil {
				o.Fail("map_put_error", err.Error(), ctx())
				return
			}
			sh[p.k] = &shadow{cnt, l}
		case 6, 7, 8:
			v, ok := ix.Value(p.e)
			s := sh[p.k]
			o.Asserts++
			if ok != (s != nil) || (ok && (v.Count != s.count || math.Float64bits(v.Len) != math.Float64bits(s.len))) {
				got := "absent"
				if ok {
					got = fmt.Sprintf("{%d,%v}", v.Count, v.Len)
				}
				want := "absent"
				if s != nil {
					want = fmt.Sprintf("{%d,%v}", s.count, s.len)
				}
				o.Fail("map_value", fmt.Sprintf("op %d Value(%s) = %s, plain map says %s", i, tx.Show(p.k), got, want), ctx(), "cap", fmt.Sprint(capa))
				return
			}
		default:
			lo := r.Intn(6)
			hi := lo + r.Intn(40)
			// KeyValue fields are private: the listing is compared by size (membership is covered by Value sweeps)
			listed := len(ix.Edges(lo, hi))
			want := 0
			for _, s := range sh {
				if (s.count > lo && s.count <= hi) || s.count == hi {
					want++
				}
			}
			o.Check(listed == want, "map_edges_listing", fmt.Sprintf("op %d Edges(%d,%d) lists %d entries, plain map says %d", i, lo, hi, listed, want), ctx())
		}
	}
	// final sweep: every key of the pool
	for _, p := range pool {
		v, ok := ix.Value(p.e)
		s := sh[p.k]
		o.Asserts++
		if ok != (s != nil) || (ok && (v.Count != s.count || math.Float64bits(v.Len) != math.Float64bits(s.len))) {
			o.Fail("map_value", fmt.Sprintf("final sweep: Value(%s) present=%v, plain map present=%v", tx.Show(p.k), ok, s != nil), o.Sample, "cap", fmt.Sprint(capa))
			return
		}
	}
	total := len(ix.Edges(-1, 1<<30))
	o.Check(total == len(sh), "map_size", fmt.Sprintf("index lists %d entries in total, plain map holds %d", total, len(sh)), o.Sample)
	o.Ev("map_ops", nops)
	o.Ev("map_distinct_keys", len(sh))
	o.Nontrivial = float64(len(sh)) >= float64(capa)*lf || len(sh) > 10
}

var perms4 = func() [][4]int {
	var out [][4]int
	var rec func(cur []int, used [4]bool)
	rec = func(cur []int, used [4]bool) {
		if len(cur) == 4 {
			out = append(out, [4]int{cur[0], cur[1], cur[2], cur[3]})
			return
		}
		for i := 0; i < 4; i++ {
			if !used[i] {
				used[i] = true
				rec(append(cur, i), used)
				used[i] = false
			}
		}
	}
	rec(nil, [4]bool{})
	return out
}()

func pairing(q *tree.Quartet) string {
	a, b := []int{int(q.T1), int(q.T2)}, []int{int(q.T3), int(q.T4)}
	sort.Ints(a)
	sort.Ints(b)
	if a[0] > b[0] {
		a, b = b, a
	}
	return fmt.Sprintf("%d,%d|%d,%d", a[0], a[1], b[0], b[1])
}

func taxa4(q *tree.Quartet) string {
	a := []int{int(q.T1), int(q.T2), int(q.T3), int(q.T4)}
	sort.Ints(a)
	return fmt.Sprint(a)
}

func c04Quartets(c *Ctx, r *rand.Rand, idx int, o *Obs) {
	o.Class = "quartet"
	// (a) 24 x 24 presentations of two 4-subsets
	ids := r.Perm(gen.Pick(r, 4, 5, 6, 40, 1000))
	s1 := [4]uint{uint(ids[0]), uint(ids[1]), uint(ids[2]), uint(ids[3])}
	s2 := s1
	if len(ids) > 4 && r.Intn(2) == 0 {
		s2[r.Intn(4)] = uint(ids[4])
	}
	if len(ids) >= 40 && r.Intn(2) == 0 {
		// two different 4-subsets that polynomial hashes of the sorted indexes (base 31, 32, 33 ...) cannot tell apart:
		// {a,b,c,d} and {a,b,c+1,d-base}
		base := uint(gen.Pick(r, 31, 31, 32, 33, 37))
		a, b := uint(r.Intn(5)), uint(5+r.Intn(5))
		cc := uint(10 + r.Intn(10))
		d := cc + 2 + base + uint(r.Intn(20))
		s1 = [4]uint{a, b, cc, d}
		s2 = [4]uint{a, b, cc + 1, d - base}
		o.Ev("quartet_pairs_engineered_to_collide", 1)
	}
	o.Sample = fmt.Sprintf("quartet taxa %v and %v; ", s1, s2)
	mk := func(s [4]uint, p [4]int) *tree.Quartet {
		return &tree.Quartet{T1: s[p[0]], T2: s[p[1]], T3: s[p[2]], T4: s[p[3]]}
	}
	for _, p := range perms4 {
		for _, q := range perms4 {
			a, b := mk(s1, p), mk(s2, q)
			cmp := a.Compare(b)
			want := tree.QUARTET_DIFF
			if taxa4(a) == taxa4(b) {
				want = tree.QUARTET_CONFLICT
				if pairing(a) == pairing(b) {
					want = tree.QUARTET_EQUALS
				}
			}
			o.Asserts++
			if cmp != want {
				o.Fail("quartet_compare", fmt.Sprintf("Compare(%v,%v)=%d, model says %d", *a, *b, cmp, want), o.Sample)
				return
			}
			he := a.HashEquals(b)
			o.Asserts++
			if he != (want != tree.QUARTET_DIFF) {
				o.Fail("quartet_hashequals", fmt.Sprintf("HashEquals(%v,%v)=%v", *a, *b, he), o.Sample)
				return
			}
			if he {
				o.Asserts++
				if a.HashCode() != b.HashCode() {
					o.Fail("quartet_hash", fmt.Sprintf("%v and %v are HashEquals but hash to %d and %d", *a, *b, a.HashCode(), b.HashCode()), o.Sample)
					return
				}
			}
		}
	}
	// (b) Quartets() of a small tree into a HashMap: one entry per resolved 4-subset, with its topology
	n := 4 + r.Intn(9)
	if idx%40 == 3 {
		n = 36 + r.Intn(10) // taxon indexes beyond 31: 58905..148995 4-subsets
	}
	R := c04Tree(r, n, nil)
	text := R.Newick()
	o.Sample += Trunc(text, 300)
	o.SetFP(o.Sample)
	t := mustParse(text)
	if err := t.ReinitIndexes(); err != nil {
		o.Inconclusive = err.Error()
		return
	}
	names := modelOf(t).SortedTips()
	tx := ref.NewTaxa(names)
	splits := modelOf(t).Splits(tx)
	// model: resolved topology per 4-subset
	want := map[string]string{}
	for a := 0; a < n; a++ {
		for b := a + 1; b < n; b++ {
			for cc := b + 1; cc < n; cc++ {
				for d := cc + 1; d < n; d++ {
					four := []int{a, b, cc, d}
					for k, s := range splits {
						if s.Trivial {
							continue
						}
						var in []int
						for _, x := range four {
							if k[x/8]&(1<<uint(x%8)) != 0 {
								in = append(in, x)
							}
						}
						if len(in) == 2 {
							var out []int
							for _, x := range four {
								if x != in[0] && x != in[1] {
									out = append(out, x)
								}
							}
							if in[0] > out[0] {
								in, out = out, in
							}
							want[fmt.Sprint(four)] = fmt.Sprintf("%d,%d|%d,%d", in[0], in[1], out[0], out[1])
						}
					}
				}
			}
		}
	}
	hm := hashmap.NewHashMap(uint64(gen.Pick(r, 1, 4, 16, 100)), gen.Pick(r, 0.5, 0.75, 2.0))
	emitted := 0
	t.Quartets(false, func(q *tree.Quartet) {
		emitted++
		hm.PutValue(q, q)
	})
	got := map[string]string{}
	for _, kv := range hm.KeyValues() {
		q := kv.Key.(*tree.Quartet)
		if _, dup := got[taxa4(q)]; dup {
			o.Fail("quartet_index_duplicate", "two entries for the 4-subset "+taxa4(q)+" (hash not invariant under presentation)", o.Sample)
			return
		}
		got[taxa4(q)] = pairing(q)
	}
	// every indexed 4-subset is one the tree resolves, with that topology (completeness of the
	// enumeration is not part of C04: quartets across a bifurcating root are not enumerated)
	for k, g := range got {
		if v, ok := want[k]; !ok || g != v {
			o.Check(false, "quartet_index_entry", fmt.Sprintf("4-subset %s: index has %q, tree says %q", k, g, v), o.Sample)
			break
		}
	}
	o.Asserts += len(got)
	o.Ev("quartets_emitted", emitted)
	o.Nontrivial = len(want) > 0
}
