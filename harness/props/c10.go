package props

import (
	"fmt"
	"math"
	"math/rand"
	"strings"

	"github.com/evolbioinfo/gotree/support"
	"github.com/evolbioinfo/gotree/tree"

	"verif/gen"
	"verif/ref"
)

func init() {
	Register(&Prop{
		ID:       "C10",
		Chunk:    40,
		NeedsCLI: true,
		Count: func(c *Ctx) int {
			if c.Thorough() {
				return 40000
			}
			return 1600
		},
		Rule: "case = reference tree (rooted or not) + 1..50 bootstrap trees (binary and multifurcating, perturbation distance from identical to random) on 4..60 taxa, one case in forty with 255..1000 bootstrap trees on 4..10 taxa; FBP and TBE (1 thread) against brute force on the model (split membership; min over all bootstrap branches of min(Hamming, n-Hamming)); FBP, TBE, FBP in a row on one reference object; tree objects with a past (renamed after indexing; re-rooted after parsing); invariance under order/re-rooting/rotation; rejection of a bootstrap tree on other taxa at any position; every 8th case through gotree compute support fbp|tbe; non-trivial = some inner branch has 0 < FBP < 1 or 0 < TBE < 1; distinct by texts",
		Assumptions: []string{
			"asserted for reference branches whose light side has >= 2 tips (the structurally inner root branch next to a tip child of a rooted reference is left unasserted)",
			"trees come from the Newick parser, as in every real use (TBE relies on the branch ids the reader assigns)",
			"single-threaded here; threads are C11; supports compared to 1e-12",
		},
		Run: runC10,
	})
}

// bruteSupports returns, per canonical split of the reference, FBP and TBE by brute force.
func bruteSupports(refM *ref.Tree, boots []*ref.Tree, tx *ref.Taxa) (fbp, tbe map[ref.Key]float64, light map[ref.Key]int) {
	n := len(tx.Names)
	fbp, tbe, light = map[ref.Key]float64{}, map[ref.Key]float64{}, map[ref.Key]int{}
	bits := func(k ref.Key) []bool {
		b := make([]bool, n)
		for i := 0; i < n; i++ {
			b[i] = k[i/8]&(1<<uint(i%8)) != 0
		}
		return b
	}
	var bootSplits []map[ref.Key]*ref.Split
	var bootBits [][][]bool
	for _, b := range boots {
		sp := b.Splits(tx)
		bootSplits = append(bootSplits, sp)
		var bb [][]bool
		for k := range sp {
			bb = append(bb, bits(k))
		}
		bootBits = append(bootBits, bb)
	}
	for k, s := range refM.Splits(tx) {
		if s.Trivial {
			continue
		}
		light[k] = s.Light
		kb := bits(k)
		cnt := 0
		sum := 0.0
		for ti := range boots {
			if _, ok := bootSplits[ti][k]; ok {
				cnt++
			}
			best := n
			for _, bb := range bootBits[ti] {
				h := 0
				for i := 0; i < n; i++ {
					if kb[i] != bb[i] {
						h++
					}
				}
				if n-h < h {
					h = n - h
				}
				if h < best {
					best = h
				}
			}
			sum += float64(best)
		}
		N := float64(len(boots))
		fbp[k] = float64(cnt) / N
		tbe[k] = 1 - (sum/N)/float64(s.Light-1)
	}
	return
}

// observedSupports reads supports through the accessors, keyed by the walked split.
func observedSupports(t *tree.Tree, tx *ref.Taxa) (inner map[ref.Key][]float64, tipWithSupport string) {
	inner = map[ref.Key][]float64{}
	for _, e := range t.Edges() {
		var below []string
		namesBelow(e.Right(), e.Left(), &below)
		k, lightSide := tx.KeyOf(below)
		if e.Right().Tip() {
			if e.Support() != tree.NIL_SUPPORT {
				tipWithSupport = e.Right().Name()
			}
			continue
		}
		if lightSide < 2 {
			continue
		}
		inner[k] = append(inner[k], e.Support())
	}
	return
}

func runC10(c *Ctx, idx int, o *Obs) {
	r := c.Rng("C10", idx)
	maxTax := 40
	if c.Thorough() && idx%6 == 0 {
		maxTax = 60
	}
	ntax := gen.Size(r, 4, maxTax)
	nboot := 1 + r.Intn(gen.Pick(r, 3, 10, 25, 50))
	if !c.Thorough() && ntax > 30 && nboot > 20 {
		nboot = 20
	}
	if idx%40 == 5 { // many bootstrap trees on few taxa: counts beyond one byte
		ntax, nboot = 4+r.Intn(7), gen.Pick(r, 255, 256, 257, 300, 1000)
	}
	o.AddSet("list:bootstrap_sizes", fmt.Sprint(nboot))
	base := gen.Tree(r, gen.Opts{N: ntax, Shape: gen.Pick(r, "random", "random", "caterpillar", "balanced"), RootDeg: 3,
		MultiP: gen.Pick(r, 0.0, 0.0, 0.2), Lens: "all", LenCls: "len", Names: gen.Pick(r, "simple", "simple", "hostile")})
	baseText := base.Newick()
	refRooted := r.Intn(3) == 0
	refText := perturbedTree(r, baseText, 0, refRooted, "len")
	// reference trees often already carry supports (PhyML, IQ-TREE output): they must not leak into the result
	preSup := gen.Pick(r, "none", "unit", "percent")
	if preSup != "none" {
		rt0 := mustParse(refText)
		for _, e := range rt0.InternalEdges() {
			if r.Intn(4) > 0 {
				if preSup == "unit" {
					e.SetSupport(gen.Float(r, "unit"))
				} else {
					e.SetSupport(float64(r.Intn(101)))
				}
			}
		}
		refText = rt0.Newick()
	}
	strength := gen.Pick(r, 0, 1, 2, 4, 8, 30)
	var boots []string
	for i := 0; i < nboot; i++ {
		k := 0
		if strength > 0 {
			k = r.Intn(strength + 1)
		}
		boots = append(boots, perturbedTree(r, baseText, k, r.Intn(6) == 0, "len"))
	}
	inp := "ref: " + refText + "\nboot:\n" + strings.Join(boots, "\n")
	o.Sample = Trunc(inp, 500)
	o.SetFP(inp)
	o.Class = fmt.Sprintf("refRooted=%v/strength%d/presup-%s", refRooted, strength, preSup)
	tx := ref.NewTaxa(base.Tips())
	refM := modelOf(mustParse(refText))
	var bootM []*ref.Tree
	for _, b := range boots {
		bootM = append(bootM, modelOf(mustParse(b)))
	}
	wantF, wantT, _ := bruteSupports(refM, bootM, tx)

	judge := func(what string, rt *tree.Tree, want map[ref.Key]float64, fbpVals map[ref.Key]float64) map[ref.Key]float64 {
		got, tipSup := observedSupports(rt, tx)
		inp2 := inp + "\n=> " + what + ": " + Trunc(rt.Newick(), 2000)
		o.Check(tipSup == "", "support_on_tip", what+": tip branch "+tipSup+" carries a support", inp2)
		res := map[ref.Key]float64{}
		for k, w := range want {
			vals := got[k]
			if !o.Check(len(vals) > 0, "support_missing", what+": no support on inner branch "+tx.Show(k), inp2) {
				continue
			}
			for _, v := range vals {
				o.Check(v != tree.NIL_SUPPORT && math.Abs(v-w) <= 1e-12, "support_value",
					fmt.Sprintf("%s: branch %s has support %v, definition gives %v", what, tx.Show(k), v, w), inp2, "fn", strings.Fields(what)[0])
				o.Check(v >= 0 && v <= 1, "support_range", fmt.Sprintf("%s: support %v outside [0,1]", what, v), inp2)
				if v > 0 && v < 1 {
					o.Nontrivial = true
				}
				res[k] = v
			}
		}
		return res
	}

	// ---- FBP ------------------------------------------------------------------------------
	rt := mustParse(refText)
	err := support.FBP(rt, treesChan(boots), 1, nil)
	o.Ev("FBP", 1)
	var gotF map[ref.Key]float64
	if o.Check(err == nil, "fbp_error", fmt.Sprint(err), inp) {
		gotF = judge("FBP", rt, wantF, nil)
	}
	// ---- TBE ------------------------------------------------------------------------------
	rt = mustParse(refText)
	if err := rt.ReinitIndexes(); err != nil {
		o.Inconclusive = err.Error()
		return
	}
	_, err = support.TBE(rt, treesChan(boots), 1, false, false, false, 0.3, nil, nil)
	o.Ev("TBE", 1)
	if o.Check(err == nil, "tbe_error", fmt.Sprint(err), inp) {
		gotT := judge("TBE", rt, wantT, nil)
		for k, v := range gotT {
			if f, ok := gotF[k]; ok {
				o.Check(v >= f-1e-12, "tbe_below_fbp", fmt.Sprintf("branch %s: TBE %v < FBP %v", tx.Show(k), v, f), inp)
				o.Check((math.Abs(v-1) <= 1e-12) == (math.Abs(f-1) <= 1e-12), "tbe_one_iff_in_all",
					fmt.Sprintf("branch %s: TBE %v, FBP %v", tx.Show(k), v, f), inp)
			}
		}
	}

	// ---- tree objects with a past (indexed under another name, then renamed through the API) -----
	{
		rtU := usedObject(r, refText)
		if err := support.FBP(rtU, treesChanUsed(r, boots), 1, nil); o.Check(err == nil, "fbp_error", "used tree objects: "+fmt.Sprint(err), inp) {
			judge("FBP (reference and some bootstrap trees are previously indexed and renamed objects)", rtU, wantF, nil)
		}
		rtU = usedObject(r, refText)
		if err := rtU.ReinitIndexes(); err == nil {
			if _, err := support.TBE(rtU, treesChanUsed(r, boots), 1, false, false, false, 0.3, nil, nil); o.Check(err == nil, "tbe_error", "used tree objects: "+fmt.Sprint(err), inp) {
				judge("TBE (some bootstrap trees are previously indexed and renamed objects)", rtU, wantT, nil)
			}
		}
		o.Ev("used_object_runs", 2)
	}

	// ---- a reference object that was re-rooted at another inner node after parsing (branch ids no longer follow the
	// order in which branches are listed, parents no longer come first): same supports, split by split
	if !refRooted && idx%3 == 1 {
		mkRef := func() *tree.Tree {
			t := mustParse(refText)
			var cand []*tree.Node
			for _, nd := range innerNodes(t) {
				if nd.Nneigh() >= 3 {
					cand = append(cand, nd)
				}
			}
			if len(cand) > 0 {
				t.Reroot(cand[(idx/3)%len(cand)])
			}
			return t
		}
		rr := mkRef()
		if err := support.FBP(rr, treesChan(boots), 1, nil); o.Check(err == nil, "fbp_error", "re-rooted reference object: "+fmt.Sprint(err), inp) {
			judge("FBP (reference object re-rooted after parsing)", rr, wantF, nil)
		}
		rr = mkRef()
		if err := rr.ReinitIndexes(); err == nil {
			if _, err := support.TBE(rr, treesChan(boots), 1, false, false, false, 0.3, nil, nil); o.Check(err == nil, "tbe_error", "re-rooted reference object: "+fmt.Sprint(err), inp) {
				judge("TBE (reference object re-rooted after parsing)", rr, wantT, nil)
			}
		}
		o.Ev("rerooted_reference_object", 1)
	}

	// ---- one Supporter (progress / cancel handle) given to two analyses in a row: the second is the definition's too
	if idx%4 == 2 {
		sup := support.NewSupporter()
		r1, r2 := mustParse(refText), mustParse(refText)
		if err := support.FBP(r1, treesChan(boots), 1, sup); o.Check(err == nil, "fbp_error", "with a Supporter: "+fmt.Sprint(err), inp) {
			judge("FBP (first analysis of a Supporter)", r1, wantF, nil)
			if err := support.FBP(r2, treesChan(boots), 1, sup); o.Check(err == nil, "fbp_error", "second analysis of a Supporter: "+fmt.Sprint(err), inp) {
				judge("FBP (second analysis of the same Supporter)", r2, wantF, nil)
			}
		}
		o.Ev("supporter_reused", 1)
	}

	// ---- the same reference object through several computations in a row: each result is the definition's,
	// whatever the previous computation left on the object (supports, ids, indexes)
	if idx%3 == 0 {
		rs := mustParse(refText)
		if err := support.FBP(rs, treesChan(boots), 1, nil); o.Check(err == nil, "fbp_error", "first of a series: "+fmt.Sprint(err), inp) {
			if err := rs.ReinitIndexes(); err == nil {
				if _, err := support.TBE(rs, treesChan(boots), 1, false, false, false, 0.3, nil, nil); o.Check(err == nil, "tbe_error", "after FBP on the same object: "+fmt.Sprint(err), inp) {
					judge("TBE (after FBP on the same reference object)", rs, wantT, nil)
				}
				if err := support.FBP(rs, treesChan(boots), 1, nil); o.Check(err == nil, "fbp_error", "after FBP and TBE on the same object: "+fmt.Sprint(err), inp) {
					judge("FBP (after FBP and TBE on the same reference object)", rs, wantF, nil)
				}
				o.Ev("series_on_one_reference_object", 1)
			}
		}
	}

	// ---- invariance: order, re-rooting, rotation of every tree -------------------------------
	{
		represent := func(s string) string {
			t := mustParse(s)
			if !t.Rooted() {
				var cand []*tree.Node
				for _, x := range innerNodes(t) {
					if x.Nneigh() >= 3 {
						cand = append(cand, x)
					}
				}
				t.Reroot(cand[r.Intn(len(cand))])
			}
			rand.Seed(r.Int63())
			t.RotateInternalNodes()
			return t.Newick()
		}
		var b2 []string
		for _, i := range r.Perm(len(boots)) {
			b2 = append(b2, represent(boots[i]))
		}
		ref2 := represent(refText)
		rt := mustParse(ref2)
		if err := support.FBP(rt, treesChan(b2), 1, nil); o.Check(err == nil, "fbp_error", "re-presented inputs: "+fmt.Sprint(err), inp) {
			judge("FBP (permuted, re-rooted, rotated inputs)", rt, wantF, nil)
		}
		rt = mustParse(ref2)
		rt.ReinitIndexes()
		if _, err := support.TBE(rt, treesChan(b2), 1, false, false, false, 0.3, nil, nil); o.Check(err == nil, "tbe_error", "re-presented inputs: "+fmt.Sprint(err), inp) {
			judge("TBE (permuted, re-rooted, rotated inputs)", rt, wantT, nil)
		}
		o.Ev("invariance_runs", 2)
	}

	// ---- a bootstrap tree on other taxa, at any position -------------------------------------
	{
		pos := r.Intn(nboot + 1)
		if idx%3 == 0 {
			pos = nboot // last
		} else if idx%3 == 1 {
			pos = 0
		}
		m := bootM[r.Intn(nboot)].Clone()
		tips := modelTips(m)
		variant := gen.Pick(r, "renamed", "renamed", "extra", "missing")
		switch variant {
		case "renamed":
			tips[r.Intn(len(tips))].Name = "other_taxon"
		case "extra":
			nd := tips[r.Intn(len(tips))]
			nd.Children = []*ref.Node{{Name: nd.Name, Len: ref.N(1)}, {Name: "other_taxon", Len: ref.N(1)}}
			nd.Name = ""
		case "missing":
			if len(tips) > 4 {
				keep := setOf(m.Tips())
				delete(keep, tips[r.Intn(len(tips))].Name)
				m = m.Restrict(keep)
			} else {
				tips[0].Name = "other_taxon"
			}
		}
		b2 := append(append(append([]string{}, boots[:pos]...), m.Newick()), boots[pos:]...)
		inp2 := "ref: " + refText + "\nboot (tree " + fmt.Sprint(pos) + " has a " + variant + " taxon):\n" + strings.Join(b2, "\n")
		where := "middle"
		if pos == 0 {
			where = "first"
		} else if pos == nboot {
			where = "last"
		}
		var err error
		if !o.Guard("fbp_mismatch_panic", inp2, func() { err = support.FBP(mustParse(refText), treesChan(b2), 1, nil) }) {
			o.Ev("mismatch_fbp:"+where, 1)
			o.Check(err != nil, "fbp_mismatch_accepted", fmt.Sprintf("FBP: bootstrap tree %d of %d has a %s taxon and no error was returned", pos, len(b2), variant), inp2)
		}
		rt := mustParse(refText)
		rt.ReinitIndexes()
		if !o.Guard("tbe_mismatch_panic", inp2, func() { _, err = support.TBE(rt, treesChan(b2), 1, false, false, false, 0.3, nil, nil) }) {
			o.Ev("mismatch_tbe:"+where, 1)
			o.Check(err != nil, "tbe_mismatch_accepted", fmt.Sprintf("TBE: bootstrap tree %d of %d has a %s taxon and no error was returned", pos, len(b2), variant), inp2, "pos", where)
		}
	}

	// ---- the commands -----------------------------------------------------------------------
	if idx%8 == 6 {
		fr := tmpFile(c, "ref.nw", refText+"\n")
		fb := tmpFile(c, "boot.nw", strings.Join(boots, "\n")+"\n")
		for _, m := range []string{"fbp", "tbe"} {
			res := runCLI(c, "", "compute", "support", m, "-i", fr, "-b", fb, "-l", "log.txt")
			o.Ev("cli", 1)
			if !o.Check(res.Exit == 0 && !res.Panic, "cli_support_failed", m+": "+res.brief(), inp) {
				continue
			}
			ct, err := parseNewick(strings.TrimSpace(res.Stdout))
			if !o.Check(err == nil, "cli_support_output", fmt.Sprintf("%s: %v in %q", m, err, Trunc(res.Stdout, 300)), inp) {
				continue
			}
			// supports are read from the text here: re-parse and walk
			want := wantF
			if m == "tbe" {
				want = wantT
			}
			judge("gotree compute support "+m, ct, want, nil)
		}
	}
}
