package ref_test

import (
	"math"
	"math/rand"
	"sort"
	"strings"
	"testing"

	"verif/gen"
	"verif/ref"
)

func randTree(r *rand.Rand, n int) *ref.Tree {
	return gen.Tree(r, gen.Opts{N: n, Shape: gen.Pick(r, "random", "caterpillar", "balanced", "star", "broom"),
		MultiP: 0.3, Lens: gen.Pick(r, "all", "mixed", "none"), LenCls: "mix", SupP: 0.5, SupCls: "mix", PValP: 0.5,
		InnerNameP: 0.3, RootNameP: 0.3, Names: gen.Pick(r, "simple", "hostile"), NodeComP: 0.3, EdgeComP: 0.3})
}

// writer o reader is the identity on the model's own structures
func TestWriteRead(t *testing.T) {
	r := rand.New(rand.NewSource(1))
	for i := 0; i < 3000; i++ {
		m := randTree(r, 2+r.Intn(30))
		txt := m.Newick()
		m2, err := ref.ParseNewick(txt)
		if err != nil {
			t.Fatalf("%v on %s", err, txt)
		}
		if d := ref.Diff(m.Root, m2.Root, "root", true); d != "" {
			t.Fatalf("%s on %s", d, txt)
		}
		if m2.Newick() != txt {
			t.Fatalf("rewrite differs: %s vs %s", txt, m2.Newick())
		}
	}
}

// restriction against brute force: distances between kept tips are unchanged, no degree-2 node remains
func TestRestrict(t *testing.T) {
	r := rand.New(rand.NewSource(2))
	for i := 0; i < 2000; i++ {
		m := gen.Tree(r, gen.Opts{N: 3 + r.Intn(6), Shape: "random", MultiP: 0.3, Lens: "all", LenCls: "dec"})
		tips := m.Tips()
		keep := map[string]bool{}
		for _, x := range tips {
			if r.Intn(2) == 0 {
				keep[x] = true
			}
		}
		if len(keep) < 2 {
			continue
		}
		rs := m.Restrict(keep)
		got := rs.SortedTips()
		var want []string
		for k := range keep {
			want = append(want, k)
		}
		sort.Strings(want)
		if strings.Join(got, ",") != strings.Join(want, ",") {
			t.Fatalf("tips %v vs %v", got, want)
		}
		d0, d1 := m.Dist(ref.MLen), rs.Dist(ref.MLen)
		for k, v := range d1 {
			if math.Abs(d0[k]-v) > 1e-9 {
				t.Fatalf("distance %q %v vs %v in %s -> %s", k, d0[k], v, m.Newick(), rs.Newick())
			}
		}
		_, lo, _ := rs.Degrees()
		if lo < 3 && lo != 1<<30 {
			t.Fatalf("degree-2 node left in %s", rs.Newick())
		}
		// splits of the restriction are exactly the non-empty restrictions of the original splits
		tx := ref.NewTaxa(got)
		have := rs.Splits(tx)
		all := ref.NewTaxa(tips)
		for k := range m.Splits(all) {
			var side []string
			for _, s := range all.Side(k) {
				if keep[s] {
					side = append(side, s)
				}
			}
			if len(side) == 0 || len(side) == len(got) {
				continue
			}
			rk, _ := tx.KeyOf(side)
			if _, ok := have[rk]; !ok {
				t.Fatalf("restricted split %v missing in %s (from %s)", side, rs.Newick(), m.Newick())
			}
		}
	}
}

// Sankoff against exhaustive enumeration of all labelings
func TestSankoff(t *testing.T) {
	r := rand.New(rand.NewSource(3))
	for i := 0; i < 1500; i++ {
		m := gen.Tree(r, gen.Opts{N: 2 + r.Intn(5), Shape: "random", MultiP: 0.4, RootDeg: gen.Pick(r, 2, 3, 4)})
		k := 1 + r.Intn(3)
		sets := map[string]uint64{}
		for _, x := range m.Tips() {
			s := uint64(1) << uint(r.Intn(k))
			if r.Intn(4) == 0 {
				s |= uint64(1) << uint(r.Intn(k))
			}
			sets[x] = s
		}
		ts := func(n string) uint64 { return sets[n] }
		res := ref.Sankoff(m, k, ts)
		bm, bo := ref.BruteMin(m, k, ts)
		if res.Min != bm {
			t.Fatalf("min %d vs brute %d on %s %v", res.Min, bm, m.Newick(), sets)
		}
		for n, mask := range bo {
			if res.Opt[n] != mask {
				t.Fatalf("optimal set %b vs brute %b on %s %v", res.Opt[n], mask, m.Newick(), sets)
			}
		}
	}
}

func TestSplitsAndComponents(t *testing.T) {
	m, _ := ref.ParseNewick("((a:1,b:2):3,(c:4,d:5):6);")
	tx := ref.NewTaxa(m.Tips())
	sp := m.Splits(tx)
	k, _ := tx.KeyOf([]string{"a", "b"})
	if s := sp[k]; s == nil || s.Mult != 2 || s.Len != 9 {
		t.Fatalf("root split not merged: %+v", sp[k])
	}
	if len(sp) != 5 {
		t.Fatalf("expected 5 splits, got %d", len(sp))
	}
	comps := m.Components(func(l ref.Num) bool { return l.Z() >= 3 })
	if len(comps) != 3 { // {a,b} {c} {d}
		t.Fatalf("components %v", comps)
	}
	d := m.Dist(ref.MLen)
	if d["a\x00d"] != 1+3+6+5 {
		t.Fatalf("dist %v", d)
	}
}
