// Package ref is the reference model of phylogenetic trees used by every oracle.
// It imports nothing from gotree and deliberately uses the slowest obvious algorithm.
package ref

import (
	"errors"
	"fmt"
	"math"
	"sort"
	"strconv"
	"strings"
)

// Num is an optional number (length, support, p-value).
type Num struct {
	Has bool
	V   float64
}

func N(v float64) Num { return Num{true, v} }

func (n Num) Eq(o Num) bool {
	if n.Has != o.Has {
		return false
	}
	return !n.Has || math.Float64bits(n.V) == math.Float64bits(o.V)
}

func (n Num) String() string {
	if !n.Has {
		return "-"
	}
	return strconv.FormatFloat(n.V, 'g', -1, 64)
}

// Z returns the value with absent == 0.
func (n Num) Z() float64 {
	if !n.Has {
		return 0
	}
	return n.V
}

// Node of a rooted ordered tree. Len/Sup/PVal/EdgeComments belong to the branch above the node.
type Node struct {
	Name         string
	Children     []*Node
	Len          Num
	Sup          Num
	PVal         Num
	NodeComments []string
	EdgeComments []string
}

type Tree struct {
	Root *Node
}

func (n *Node) IsTip() bool { return len(n.Children) == 0 }

// ---------------------------------------------------------------------------------------------
// Reader for exactly the grammar gotree writes.

type rd struct {
	s string
	i int
}

const meta = "()[],:;"

func (r *rd) peek() byte {
	if r.i >= len(r.s) {
		return 0
	}
	return r.s[r.i]
}

func (r *rd) label() string {
	st := r.i
	for r.i < len(r.s) && !strings.ContainsRune(meta, rune(r.s[r.i])) {
		r.i++
	}
	return r.s[st:r.i]
}

func (r *rd) comments() ([]string, error) {
	var out []string
	for r.peek() == '[' {
		e := strings.IndexByte(r.s[r.i:], ']')
		if e < 0 {
			return nil, errors.New("ref: unterminated comment")
		}
		out = append(out, r.s[r.i+1:r.i+e])
		r.i += e + 1
	}
	return out, nil
}

func (r *rd) node(depth int) (*Node, error) {
	n := &Node{}
	if r.peek() == '(' {
		for {
			r.i++ // '(' or ','
			c, err := r.node(depth + 1)
			if err != nil {
				return nil, err
			}
			n.Children = append(n.Children, c)
			if r.peek() == ',' {
				continue
			}
			if r.peek() == ')' {
				r.i++
				break
			}
			return nil, fmt.Errorf("ref: expected , or ) at %d", r.i)
		}
	}
	lab := r.label()
	if len(n.Children) > 0 && lab != "" {
		if v, err := strconv.ParseFloat(lab, 64); err == nil {
			n.Sup = N(v)
		} else if p := strings.Split(lab, "/"); len(p) == 2 {
			v1, e1 := strconv.ParseFloat(p[0], 64)
			v2, e2 := strconv.ParseFloat(p[1], 64)
			if e1 == nil && e2 == nil {
				n.Sup, n.PVal = N(v1), N(v2)
			} else {
				n.Name = lab
			}
		} else {
			n.Name = lab
		}
	} else {
		n.Name = lab
	}
	var err error
	if n.NodeComments, err = r.comments(); err != nil {
		return nil, err
	}
	if r.peek() == ':' {
		r.i++
		num := r.label()
		v, err := strconv.ParseFloat(num, 64)
		if err != nil {
			return nil, fmt.Errorf("ref: bad length %q", num)
		}
		n.Len = N(v)
		if n.EdgeComments, err = r.comments(); err != nil {
			return nil, err
		}
	}
	return n, nil
}

// ParseNewick reads one tree written by gotree's writer.
func ParseNewick(text string) (*Tree, error) {
	r := &rd{s: text}
	n, err := r.node(0)
	if err != nil {
		return nil, err
	}
	if r.peek() != ';' {
		return nil, fmt.Errorf("ref: expected ; at %d of %q", r.i, trunc(text, 80))
	}
	if r.i+1 != len(text) {
		return nil, fmt.Errorf("ref: trailing text after ;")
	}
	return &Tree{Root: n}, nil
}

func trunc(s string, n int) string {
	if len(s) > n {
		return s[:n] + "…"
	}
	return s
}

func fnum(v float64) string { return strconv.FormatFloat(v, 'f', -1, 64) }

func (n *Node) write(b *strings.Builder, root bool) {
	if len(n.Children) > 0 {
		b.WriteByte('(')
		for i, c := range n.Children {
			if i > 0 {
				b.WriteByte(',')
			}
			c.write(b, false)
		}
		b.WriteByte(')')
	}
	b.WriteString(n.Name)
	if n.Sup.Has && n.Name == "" && !root {
		b.WriteString(fnum(n.Sup.V))
		if n.PVal.Has {
			b.WriteByte('/')
			b.WriteString(fnum(n.PVal.V))
		}
	}
	for _, c := range n.NodeComments {
		b.WriteString("[" + c + "]")
	}
	if n.Len.Has && !root {
		b.WriteByte(':')
		b.WriteString(fnum(n.Len.V))
	}
	if !root {
		for _, c := range n.EdgeComments {
			b.WriteString("[" + c + "]")
		}
	}
}

// Newick writes the model in the layout gotree uses (model's own writer).
func (t *Tree) Newick() string {
	var b strings.Builder
	t.Root.write(&b, true)
	b.WriteByte(';')
	return b.String()
}

// ---------------------------------------------------------------------------------------------
// Equality

func strsEq(a, b []string) bool {
	if len(a) != len(b) {
		return false
	}
	for i := range a {
		if a[i] != b[i] {
			return false
		}
	}
	return true
}

// Diff returns "" when the two ordered trees are field-by-field equal, else a description.
func Diff(a, b *Node, path string, root bool) string {
	if a.Name != b.Name {
		return fmt.Sprintf("%s: name %q vs %q", path, a.Name, b.Name)
	}
	if len(a.Children) != len(b.Children) {
		return fmt.Sprintf("%s: %d children vs %d", path, len(a.Children), len(b.Children))
	}
	if !strsEq(a.NodeComments, b.NodeComments) {
		return fmt.Sprintf("%s: node comments %q vs %q", path, a.NodeComments, b.NodeComments)
	}
	if !root {
		if !a.Len.Eq(b.Len) {
			return fmt.Sprintf("%s: length %v vs %v", path, a.Len, b.Len)
		}
		if !a.Sup.Eq(b.Sup) {
			return fmt.Sprintf("%s: support %v vs %v", path, a.Sup, b.Sup)
		}
		if !a.PVal.Eq(b.PVal) {
			return fmt.Sprintf("%s: pvalue %v vs %v", path, a.PVal, b.PVal)
		}
		if !strsEq(a.EdgeComments, b.EdgeComments) {
			return fmt.Sprintf("%s: edge comments %q vs %q", path, a.EdgeComments, b.EdgeComments)
		}
	}
	for i := range a.Children {
		if d := Diff(a.Children[i], b.Children[i], fmt.Sprintf("%s/%d", path, i), false); d != "" {
			return d
		}
	}
	return ""
}

// ---------------------------------------------------------------------------------------------
// Reductions

func (t *Tree) walk(f func(n, parent *Node)) {
	var rec func(n, p *Node)
	rec = func(n, p *Node) {
		f(n, p)
		for _, c := range n.Children {
			rec(c, n)
		}
	}
	rec(t.Root, nil)
}

// Tips returns tip names in traversal order.
func (t *Tree) Tips() []string {
	var out []string
	t.walk(func(n, _ *Node) {
		if n.IsTip() {
			out = append(out, n.Name)
		}
	})
	return out
}

func (t *Tree) SortedTips() []string {
	o := t.Tips()
	sort.Strings(o)
	return o
}

func (t *Tree) NNodes() int {
	k := 0
	t.walk(func(n, _ *Node) { k++ })
	return k
}

// Taxa is an index of names used to encode splits as bit strings.
type Taxa struct {
	Names []string
	Idx   map[string]int
}

func NewTaxa(names []string) *Taxa {
	s := append([]string(nil), names...)
	sort.Strings(s)
	tx := &Taxa{Names: s, Idx: map[string]int{}}
	for i, n := range s {
		tx.Idx[n] = i
	}
	return tx
}

func (tx *Taxa) Unique() bool { return len(tx.Idx) == len(tx.Names) }

// Key is a canonical split: bit string over the taxa with bit 0 always clear.
type Key string

func (tx *Taxa) key(bits []bool) (Key, int) {
	n := len(tx.Names)
	k := 0
	for _, b := range bits {
		if b {
			k++
		}
	}
	flip := bits[0]
	buf := make([]byte, (n+7)/8)
	for i, b := range bits {
		if b != flip {
			buf[i/8] |= 1 << uint(i%8)
		}
	}
	if n-k < k {
		k = n - k
	}
	return Key(buf), k
}

// KeyOf encodes a set of names (one side of a split).
func (tx *Taxa) KeyOf(side []string) (Key, int) {
	bits := make([]bool, len(tx.Names))
	for _, s := range side {
		bits[tx.Idx[s]] = true
	}
	return tx.key(bits)
}

// Side decodes a key into the side not containing taxon 0.
func (tx *Taxa) Side(k Key) []string {
	var o []string
	for i := range tx.Names {
		if k[i/8]&(1<<uint(i%8)) != 0 {
			o = append(o, tx.Names[i])
		}
	}
	return o
}

func (tx *Taxa) Show(k Key) string {
	s := tx.Side(k)
	if len(s) > 12 {
		return fmt.Sprintf("{%s,…(%d)}", strings.Join(s[:12], ","), len(s))
	}
	return "{" + strings.Join(s, ",") + "}"
}

// Split describes all branches inducing one bipartition.
type Split struct {
	Len     float64 // sum of lengths of the branches in series (absent = 0)
	HasLen  bool    // at least one of them had a length
	Sups    []Num   // supports of those branches, in traversal order
	Mult    int     // number of branches inducing the split
	Light   int     // size of the light side
	Trivial bool
}

// Splits maps every canonical split to its summary. Requires unique tip names covered by tx.
func (t *Tree) Splits(tx *Taxa) map[Key]*Split {
	res := map[Key]*Split{}
	n := len(tx.Names)
	var rec func(nd *Node, root bool) []bool
	rec = func(nd *Node, root bool) []bool {
		bits := make([]bool, n)
		if nd.IsTip() {
			bits[tx.Idx[nd.Name]] = true
		}
		for _, c := range nd.Children {
			cb := rec(c, false)
			for i, b := range cb {
				if b {
					bits[i] = true
				}
			}
		}
		if !root {
			k, light := tx.key(bits)
			if light == 0 {
				return bits // branch with every tip on one side (above a single-child root path)
			}
			s := res[k]
			if s == nil {
				s = &Split{Light: light, Trivial: light <= 1}
				res[k] = s
			}
			s.Mult++
			s.Len += nd.Len.Z()
			s.HasLen = s.HasLen || nd.Len.Has
			s.Sups = append(s.Sups, nd.Sup)
		}
		return bits
	}
	rec(t.Root, true)
	return res
}

// Clades returns, for every non-root node, the sorted tip names below it joined by NUL.
func (t *Tree) Clades() map[string]*Node {
	res := map[string]*Node{}
	var rec func(n *Node, root bool) []string
	rec = func(n *Node, root bool) []string {
		var names []string
		if n.IsTip() {
			names = []string{n.Name}
		}
		for _, c := range n.Children {
			names = append(names, rec(c, false)...)
		}
		if !root {
			s := append([]string(nil), names...)
			sort.Strings(s)
			res[strings.Join(s, "\x00")] = n
		}
		return names
	}
	rec(t.Root, true)
	return res
}

type Metric int

const (
	MLen Metric = iota // branch length, absent = 0
	MOne               // 1 per branch
)

// Dist returns all tip-to-tip path sums keyed "a\x00b" (a<b).
func (t *Tree) Dist(m Metric) map[string]float64 {
	// adjacency
	type adj struct {
		to *Node
		w  float64
	}
	g := map[*Node][]adj{}
	var tips []*Node
	t.walk(func(n, p *Node) {
		if p != nil {
			w := 1.0
			if m == MLen {
				w = n.Len.Z()
			}
			g[n] = append(g[n], adj{p, w})
			g[p] = append(g[p], adj{n, w})
		}
		if n.IsTip() {
			tips = append(tips, n)
		}
	})
	res := map[string]float64{}
	for _, s := range tips {
		var rec func(n, prev *Node, d float64)
		rec = func(n, prev *Node, d float64) {
			if n.IsTip() && n != s && s.Name < n.Name {
				res[s.Name+"\x00"+n.Name] = d
			}
			for _, a := range g[n] {
				if a.to != prev {
					rec(a.to, n, d+a.w)
				}
			}
		}
		rec(s, nil, 0)
	}
	return res
}

// RootDist returns root-to-tip path sums.
func (t *Tree) RootDist() map[string]float64 {
	res := map[string]float64{}
	var rec func(n *Node, d float64, root bool)
	rec = func(n *Node, d float64, root bool) {
		if !root {
			d += n.Len.Z()
		}
		if n.IsTip() {
			res[n.Name] = d
		}
		for _, c := range n.Children {
			rec(c, d, false)
		}
	}
	rec(t.Root, 0, true)
	return res
}

// Clone deep-copies the model.
func (t *Tree) Clone() *Tree {
	var rec func(n *Node) *Node
	rec = func(n *Node) *Node {
		c := *n
		c.NodeComments = append([]string(nil), n.NodeComments...)
		c.EdgeComments = append([]string(nil), n.EdgeComments...)
		c.Children = nil
		for _, ch := range n.Children {
			c.Children = append(c.Children, rec(ch))
		}
		return &c
	}
	return &Tree{Root: rec(t.Root)}
}

// Restrict returns the tree induced on keep (degree-2 nodes suppressed, lengths added).
// Returns nil when no tip is kept.
func (t *Tree) Restrict(keep map[string]bool) *Tree {
	var rec func(n *Node) *Node
	rec = func(n *Node) *Node {
		if n.IsTip() {
			if keep[n.Name] {
				c := *n
				c.Children = nil
				return &c
			}
			return nil
		}
		var kids []*Node
		for _, ch := range n.Children {
			if k := rec(ch); k != nil {
				kids = append(kids, k)
			}
		}
		if len(kids) == 0 {
			return nil
		}
		if len(kids) == 1 {
			k := kids[0]
			if n.Len.Has || k.Len.Has {
				k.Len = N(n.Len.Z() + k.Len.Z())
			}
			return k
		}
		c := *n
		c.Children = kids
		return &c
	}
	r := rec(t.Root)
	if r == nil {
		return nil
	}
	r.Len = Num{}
	return &Tree{Root: r}
}

// Components groups tips connected by branches for which cut(len) is false.
func (t *Tree) Components(cut func(l Num) bool) [][]string {
	parent := map[*Node]*Node{}
	var find func(n *Node) *Node
	find = func(n *Node) *Node {
		for parent[n] != n {
			parent[n] = parent[parent[n]]
			n = parent[n]
		}
		return n
	}
	t.walk(func(n, _ *Node) { parent[n] = n })
	t.walk(func(n, p *Node) {
		if p != nil && !cut(n.Len) {
			parent[find(n)] = find(p)
		}
	})
	groups := map[*Node][]string{}
	t.walk(func(n, _ *Node) {
		if n.IsTip() {
			r := find(n)
			groups[r] = append(groups[r], n.Name)
		}
	})
	var out [][]string
	for _, g := range groups {
		sort.Strings(g)
		out = append(out, g)
	}
	sort.Slice(out, func(i, j int) bool { return out[i][0] < out[j][0] })
	return out
}

// CanonicalTopology is a sorted nested-tuple rendering of the unrooted (or rooted) shape,
// used for distinctness tests. Rooted: as is. Unrooted: re-rooted at the parent of the smallest tip.
func (t *Tree) CanonicalRooted() string {
	var rec func(n *Node) string
	rec = func(n *Node) string {
		if n.IsTip() {
			return n.Name
		}
		var p []string
		for _, c := range n.Children {
			p = append(p, rec(c))
		}
		sort.Strings(p)
		return "(" + strings.Join(p, ",") + ")"
	}
	return rec(t.Root)
}

// CanonicalSplits renders the set of non-trivial splits canonically (unrooted topology identity).
func (t *Tree) CanonicalSplits(tx *Taxa) string {
	var keys []string
	for k, s := range t.Splits(tx) {
		if !s.Trivial {
			keys = append(keys, string(k))
		}
	}
	sort.Strings(keys)
	return strings.Join(keys, "|")
}

// Binary reports whether every inner node has out-degree 2 (root: 2 if rooted, 3 otherwise).
func (t *Tree) Degrees() (rootDeg int, innerMin, innerMax int) {
	innerMin, innerMax = 1<<30, 0
	t.walk(func(n, p *Node) {
		if p == nil {
			rootDeg = len(n.Children)
			return
		}
		if !n.IsTip() {
			d := len(n.Children) + 1
			if d < innerMin {
				innerMin = d
			}
			if d > innerMax {
				innerMax = d
			}
		}
	})
	return
}
