package ref

// Unit-cost Sankoff dynamic programme on an arbitrary (multifurcating) rooted model tree.

const inf = 1 << 28

// SankoffResult holds the minimum cost and, per node, the bitmask of states that the node takes in
// at least one most-parsimonious reconstruction.
type SankoffResult struct {
	Min int
	Opt map[*Node]uint64
}

// Sankoff runs the up/down DP. tipSet returns the allowed states of a tip as a bitmask over k states
// (cost 0 for any member). Inner nodes are free.
func Sankoff(t *Tree, k int, tipSet func(name string) uint64) *SankoffResult {
	down := map[*Node][]int{}
	var up func(n *Node)
	up = func(n *Node) {
		d := make([]int, k)
		if n.IsTip() {
			ts := tipSet(n.Name)
			for s := 0; s < k; s++ {
				if ts&(1<<uint(s)) == 0 {
					d[s] = inf
				}
			}
			down[n] = d
			return
		}
		for _, c := range n.Children {
			up(c)
			dc := down[c]
			for s := 0; s < k; s++ {
				best := inf
				for q := 0; q < k; q++ {
					v := dc[q]
					if q != s {
						v++
					}
					if v < best {
						best = v
					}
				}
				d[s] += best
				if d[s] > inf {
					d[s] = inf
				}
			}
		}
		down[n] = d
	}
	up(t.Root)
	res := &SankoffResult{Min: inf, Opt: map[*Node]uint64{}}
	for s := 0; s < k; s++ {
		if down[t.Root][s] < res.Min {
			res.Min = down[t.Root][s]
		}
	}
	// upc[n][s] = min cost of everything outside the subtree of n, including the branch above n, given n has state s
	var dn func(n *Node, upc []int)
	dn = func(n *Node, upc []int) {
		var mask uint64
		for s := 0; s < k; s++ {
			if down[n][s]+upc[s] == res.Min {
				mask |= 1 << uint(s)
			}
		}
		res.Opt[n] = mask
		if n.IsTip() {
			return
		}
		// contribution of each child to down[n][p]
		contrib := make([][]int, len(n.Children))
		for i, c := range n.Children {
			contrib[i] = make([]int, k)
			for p := 0; p < k; p++ {
				best := inf
				for q := 0; q < k; q++ {
					v := down[c][q]
					if q != p {
						v++
					}
					if v < best {
						best = v
					}
				}
				contrib[i][p] = best
			}
		}
		for i, c := range n.Children {
			cu := make([]int, k)
			for s := 0; s < k; s++ {
				best := inf
				for p := 0; p < k; p++ {
					if down[n][p] >= inf || upc[p] >= inf {
						continue
					}
					v := upc[p] + down[n][p] - contrib[i][p]
					if p != s {
						v++
					}
					if v < best {
						best = v
					}
				}
				cu[s] = best
			}
			dn(c, cu)
		}
	}
	dn(t.Root, make([]int, k))
	return res
}

// CostOf returns the number of branches whose two ends carry different states under assign
// (inf when a tip is given a state outside its set).
func CostOf(t *Tree, assign map[*Node]int, tipSet func(name string) uint64) int {
	cost := 0
	var rec func(n *Node)
	rec = func(n *Node) {
		if n.IsTip() && tipSet(n.Name)&(1<<uint(assign[n])) == 0 {
			cost = inf
		}
		for _, c := range n.Children {
			if assign[c] != assign[n] {
				cost++
			}
			rec(c)
		}
	}
	rec(t.Root)
	return cost
}

// BruteMin enumerates all labelings of the inner nodes (for the model's own unit tests).
func BruteMin(t *Tree, k int, tipSet func(name string) uint64) (int, map[*Node]uint64) {
	var nodes []*Node
	t.walk(func(n, _ *Node) { nodes = append(nodes, n) })
	assign := map[*Node]int{}
	best := inf
	opt := map[*Node]uint64{}
	var rec func(i int)
	rec = func(i int) {
		if i == len(nodes) {
			c := CostOf(t, assign, tipSet)
			if c < best {
				best = c
				for _, n := range nodes {
					opt[n] = 0
				}
			}
			if c == best && c < inf {
				for _, n := range nodes {
					opt[n] |= 1 << uint(assign[n])
				}
			}
			return
		}
		n := nodes[i]
		for s := 0; s < k; s++ {
			if n.IsTip() && tipSet(n.Name)&(1<<uint(s)) == 0 {
				continue
			}
			assign[n] = s
			rec(i + 1)
		}
	}
	rec(0)
	return best, opt
}
