#!/bin/sh
# Offline build of the framework from files on disk only.
set -e
export GOFLAGS=-mod=mod GOPROXY=off GOSUMDB=off GOTOOLCHAIN=local
cd "$(dirname "$0")/harness"
cp /repo/go.sum .
mkdir -p ../.build ../evidence ../replay
go build -tags verif -o ../.build/vworker ./cmd/vworker
go build -tags verif -race -o ../.build/vworker.race ./cmd/vworker
(cd /repo && go build -tags verif -o /verif/.build/gotree .)
go test -tags verif -count=1 ./ref/... ./mon/... ./gen/...
