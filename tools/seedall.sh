#!/bin/bash
# usage: tools/seedall.sh <Cxx-v> [check-id ...]  — verify a sub-agent's seeded change in a scratch worktree, run the check(s)
# against it (apply to /repo, run, revert) and import it into /verif/seeded/ with the result.
name=$1; shift
prop=${name%%-*}
checks=${@:-$prop}
d=/tmp/seeded/$name
v=$(tools/seedverify.sh $d 2>&1 | tail -1)
echo "VERIFY: $v"
res=""
for c in $checks; do
  out=$(tools/seedtest.sh $d/patch.diff $c quick 2>&1)
  echo "--- check $c"; echo "$out" | head -8
  rc=$(echo "$out" | grep -o '^rc=[0-9]*' | head -1)
  kinds=$(echo "$out" | grep -o 'kind=[a-z_A-Z0-9]*' | sort -u | tr '\n' ' ')
  if [ "$rc" = "rc=1" ]; then res="$res CAUGHT by ./check $c quick (seed 1): $kinds;"; else res="$res MISSED by ./check $c quick ($rc);"; fi
done
python3 tools/seedimport.py $d "$v" "$res"
