#!/bin/bash
# usage: tools/sweep.sh <tier> <seed...>   — runs every registered check at the given seeds; prints one line per run.
tier=$1; shift
# inside `vp run --with-repo` the checks build from the run's own snapshot of the repository
if [ -n "$VP_RUN_REPO" ] && [ -z "$VERIF_REPO" ]; then export VERIF_REPO=$VP_RUN_REPO; fi
for s in "$@"; do
  for p in $(python3 -c "import json;print(' '.join(c['property_id'] for c in json.load(open('MANIFEST.json'))['checks']))"); do
    out=$(VERIF_SEED=$s ./check $p $tier 2>&1); rc=$?
    echo "seed=$s $p rc=$rc $(echo "$out" | grep -c '^VIOLATION') viol :: $(echo "$out" | tail -1 | cut -c1-160)"
    # keep what was reported (a snapshot run loses its replay files with the snapshot)
    if [ $rc -ne 0 ]; then echo "$out" | grep -e 'kind=' -e '^VIOLATION' | cut -c1-1500 | sed 's/^/    /'; fi
  done
done
