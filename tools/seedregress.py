#!/usr/bin/env python3
"""Regression over all seeded changes: applies each patch to a scratch copy of the repository (never /repo itself),
runs the check(s) its meta.json names as catching it (quick tier, VERIF_SEED=1) and reports the ones no longer caught.
usage: tools/seedregress.py <scratch repo dir> [seed ids...]"""
import glob, json, os, re, subprocess, sys
root = os.path.dirname(os.path.dirname(os.path.abspath(__file__)))
repo = sys.argv[1]
only = set(sys.argv[2:])
env = dict(os.environ, VERIF_REPO=repo, VERIF_SEED='1', GOFLAGS='-mod=mod', GOPROXY='off', GOSUMDB='off', GOTOOLCHAIN='local')
bad = []
for p in sorted(glob.glob(os.path.join(root, 'seeded', '*', 'meta.json'))):
    sid = os.path.basename(os.path.dirname(p))
    if only and sid not in only:
        continue
    m = json.load(open(p))
    cr = m['check_result']
    if cr.strip().startswith(('NOT CAUGHT', 'NOT DETECTED')):
        print(sid, 'documented non-detection, skipped', flush=True)
        continue
    checks = re.findall(r'CAUGHT by \./check (C\d\d)', cr)
    checks = [c for i, c in enumerate(checks) if c not in checks[:i]] or [m['property']]
    patch = os.path.join(os.path.dirname(p), 'patch.rebased.diff')
    if not os.path.exists(patch):
        patch = os.path.join(os.path.dirname(p), 'patch.diff')
    subprocess.run(['git', '-C', repo, 'checkout', '-q', '--', '.'], check=True)
    if subprocess.run(['git', '-C', repo, 'apply', patch]).returncode != 0:
        print(sid, 'PATCH DOES NOT APPLY', flush=True)
        bad.append(sid)
        continue
    caught = []
    for c in checks:
        r = subprocess.run([os.path.join(root, 'check'), c, 'quick'], env=env, cwd=root, capture_output=True, text=True)
        if r.returncode == 1 and 'VIOLATION property=' in r.stdout:
            caught.append(c)
            break
    subprocess.run(['git', '-C', repo, 'checkout', '-q', '--', '.'], check=True)
    print(sid, 'caught by ' + ','.join(caught) if caught else 'NOT CAUGHT NOW (tried %s)' % ','.join(checks), flush=True)
    if not caught:
        bad.append(sid)
print('no longer caught:', bad)
