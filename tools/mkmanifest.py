#!/usr/bin/env python3
"""Regenerates MANIFEST.json from the table below (keeps the file schema-valid at all times)."""
import json, os, subprocess, sys

ROOT = os.path.dirname(os.path.dirname(os.path.abspath(__file__)))

BASE_NOTE = ("Trusted base: the Go toolchain and race detector, the harness' own reference model (harness/ref, unit-tested in "
             "setup_cmd) and generators; verdicts hold for the executions observed only.")

# id -> (technique, level text, level note, design section)
CHECKS = {
    "C01": ("reference-model monitor over generated trees: writer text read by an independent reader, parser result read "
            "through accessors, bitwise model equality, byte-identical rewrite",
            "Held on every generated well-formed tree of the stratified case list (shape x decoration x float class x name "
            "class); sampled, not exhaustive. Right level: the property is a universally quantified input/output relation of "
            "sequential code; an oracle over many hostile inputs is what runtime monitoring can give.",
            "domain = the quantifier of C01 (valid UTF-8 names, finite numbers != -1); sizes <= 1000 tips quick / 50000 thorough. " + BASE_NOTE,
            "DESIGN.md §5 C01"),
}

PENDING = {}


def main():
    props = [json.loads(l) for l in open(os.path.join(ROOT, "properties.jsonl"))]
    hook_commits = []
    hp = os.path.join(ROOT, "hook_commits.txt")
    if os.path.exists(hp):
        hook_commits = [l.split()[0] for l in open(hp) if l.strip()]
    checks, na = [], []
    for p in props:
        pid = p["id"]
        if pid in CHECKS:
            tech, text, note, ref = CHECKS[pid]
            checks.append({
                "property_id": pid,
                "quick_cmd": "./check %s quick" % pid,
                "thorough_cmd": "./check %s thorough" % pid,
                "evidence_file": "evidence/%s.json" % pid,
                "replay_cmd_template": "./check %s --replay {path}" % pid,
                "engine": "vworker",
                "level_claimed": {"category": "exploration", "text": text, "design_ref": ref},
                "level_note": note,
                "technique": tech,
            })
        else:
            na.append({"property_id": pid, "reason": PENDING.get(pid, "check not built yet in this revision (planned in DESIGN.md §5; runtime monitoring applies)")})
    m = {
        "version": 1,
        "setup_cmd": "cd /verif && ./setup.sh",
        "hooks": {
            "guard": "verif",
            "enable": "go build -tags verif (the checks build /repo's packages with the tag through the harness module's replace directive)",
            "baseline_off_cmd": "cd /repo && GOFLAGS=-mod=mod GOPROXY=off GOSUMDB=off go test -vet=off -count=1 ./...",
            "source_commits": hook_commits,
            "add_only": True,
        },
        "engines": [{
            "name": "vworker",
            "path": "harness/cmd/vworker",
            "serves_properties": [c["property_id"] for c in checks],
            "kind_free_text": "runtime monitoring: Go worker processes run generated/hostile workloads against the real gotree "
                              "packages (and the real CLI binary) under monitors (reference-model oracles, structure walker, "
                              "event-log checkers, race detector); python driver shards, attributes crashes, applies known_findings.json",
        }],
        "checks": checks,
        "not_applicable": na,
        "notes": "All checks are runtime monitors (exploration level). VERIF_SEED selects the case list; same seed => same cases. "
                 "Exit 2 + 'INCONCLUSIVE' means the run could not decide (build failure, watchdog, non-triviality floor).",
    }
    with open(os.path.join(ROOT, "MANIFEST.json"), "w") as f:
        json.dump(m, f, indent=1)
        f.write("\n")
    try:
        import jsonschema
        jsonschema.validate(m, json.load(open("/root/.vp/MANIFEST.schema.json")))
        print("MANIFEST.json valid: %d checks, %d not_applicable" % (len(checks), len(na)))
    except ImportError:
        print("MANIFEST.json written (jsonschema not importable here; run with python3-vt to validate)")


if __name__ == "__main__":
    main()
