#!/usr/bin/env python3
"""Regenerates MANIFEST.json from the table below (keeps the file schema-valid at all times)."""
import json, os, subprocess, sys

ROOT = os.path.dirname(os.path.dirname(os.path.abspath(__file__)))

BASE_NOTE = ("Trusted base: the Go toolchain and race detector, the harness' own reference model (harness/ref, unit-tested in "
             "setup_cmd) and generators; verdicts hold for the executions observed only.")

# id -> (technique, level text, level note, design section)
CHECKS = {
    "C01": ("reference-model monitor over generated trees: writer text read by an independent reader, parser result read "
            "through accessors, bitwise model equality, byte-identical rewrite",
            "Held on every generated well-formed tree of the stratified case list (shape x decoration x float class x name "
            "class); sampled, not exhaustive. Right level: the property is a universally quantified input/output relation of "
            "sequential code; an oracle over many hostile inputs is what runtime monitoring can give.",
            "domain = the quantifier of C01 (valid UTF-8 names, finite numbers != -1); sizes <= 1000 tips quick / 50000 thorough. " + BASE_NOTE,
            "DESIGN.md §5 C01"),
    "C02": ("totality monitors around the real readers fed mutated documents in isolated worker processes: recover + process-death attribution, post-EOF read counter (bounded progress), CPU-second bound, reader-goroutine/channel-state monitor, follow-up traversal/index/write of every delivered tree; library entry points and the gotree binary",
            "Held on every generated hostile document (four formats x 18 mutators x nesting ladder) at every reader entry point; sampled byte strings, not all.",
            "documents <= 1 MiB, nesting <= 10^5 quick / 10^6 thorough (Nexus <= 10^4: its reader is quadratic, PhyloXML writer cubic in depth - slow, not hangs); non-termination is decided on logical counters (reads after EOF, CPU seconds, goroutine state), never on wall clock. " + BASE_NOTE,
            "DESIGN.md §5 C02"),
    "C03": ("structure-walker monitor after every step of random edit histories (invariants of the live pointer structure through public accessors + text-vs-structure via independent reader)",
            "Held on every all-success history of the case list (28 operation kinds, arguments drawn from the live tree, ~800 distinct ordered op pairs per quick run). Sampled histories, not all programs.",
            "only histories whose every step reported success are judged; start trees <= 200/1000 tips, <= 25/40 steps. " + BASE_NOTE,
            "DESIGN.md §5 C03"),
    "C04": ("index monitor (bitset/tip counts/depth/ranks vs walk), all-pairs split equality/hash agreement vs model splits, EdgeIndex vs shadow map over capacity x load factor grid, 24x24 quartet presentations",
            "Held on all generated trees/pairs/operation sequences; the capacity x load-factor grid and the 24x24 presentations are enumerated completely per case, trees and histories are sampled.",
            "capacity >= 1, load factor > 0; bitset may be either side of the split. " + BASE_NOTE,
            "DESIGN.md §5 C04"),
    "C05": ("reference-model monitor: (tip set, split->length map, distance matrix, root distances) before/after every re-rooting / unrooting / reordering; outgroup and midpoint clauses on the model",
            "Held for every inner node as new root (<= 60 tips, sampled above), every clade/complement (small trees) and sampled non-clades x strict x remove, on every generated tree. Sampled trees.",
            "lengths in [1e-6,1e3] plus zeros/ties; path sums to 1e-9 relative; halves of the cut branch bitwise. " + BASE_NOTE,
            "DESIGN.md §5 C05"),
    "C06": ("reference-model monitor: pruned tree vs model restriction (splits, path sums, no degree-2 node), name look-ups after pruning, library and gotree prune",
            "Held on every (tree, subset) pair of the case list incl. whole clades, tips at the root, cherries, one side of the root; sampled.",
            ">= 3 tips left; supports of merged branches not compared. " + BASE_NOTE,
            "DESIGN.md §5 C06"),
    "C07": ("reference-model monitor: expected split set from the documented predicate with thresholds tied to the tree's own values (+-1 ulp); refinement clauses for Resolve; library and CLI",
            "Held on all generated trees x thresholds; sampled.",
            "root split of rooted trees unasserted; absent inner lengths undecidable for the length criterion. " + BASE_NOTE,
            "DESIGN.md §5 C07"),
    "C08": ("reference-model monitor: BipartitionStats / WeightedBipartitionStats / CommonEdges / CLI table vs set algebra on model split maps; swap and presentation metamorphic checks; taxon-mismatch rejection",
            "Held on all generated pairs (independent, identical, contraction, refinement, NNI neighbour, star) x tips x identical-only; sampled.",
            "unrooted pairs on >= 4 common taxa; weighted on trees with all lengths. " + BASE_NOTE,
            "DESIGN.md §5 C08"),
    "C09": ("reference-model monitor: consensus text vs naive frequency table over model splits; exact dyadic boundaries; order/rooting/rotation invariance; rejection clauses; library and CLI",
            "Held on all generated collections (1..40 trees, rooted and unrooted mixed) x cutoffs; sampled.",
            "all lengths present; near-boundary splits excluded for non-dyadic cutoffs. " + BASE_NOTE,
            "DESIGN.md §5 C09"),
    "C10": ("reference-model monitor: supports read through accessors vs brute-force split membership / transfer distance on the model; invariance and rejection clauses; library and CLI",
            "Held on all generated (reference, bootstrap collection) cases; sampled.",
            "branches with light side >= 2; single-threaded (threads are C11). " + BASE_NOTE,
            "DESIGN.md §5 C10"),
    "C11": ("Go race detector (-race worker binary, GORACE log parsed and de-duplicated by entry-point pair) + schedule recorder on the verifhook points with delay policies + offline checkers of the event log and per-id results (equality with the 1-thread run, exactly-once) + goroutine-state deadlock detector",
            "Held on every sampled schedule: 7 entry points x 3 workloads x 4 delay policies x thread counts {2,3,4,8,16,#trees+5} vs 1 thread, and Err item / duplicate-name / taxon-mismatched tree at first/middle/last position; the evidence lists distinct interleavings, assignment vectors and overlapping worker intervals actually observed.",
            "schedules sampled (OS scheduler x hook delays), not enumerated; hangs decided on goroutine states, wall-clock watchdog alone is inconclusive; only races with a gotree frame count. " + BASE_NOTE,
            "DESIGN.md §5 C11"),
    "C12": ("reference-model monitor: steps / node state sets from ParsimonyAcr / ParsimonyAsr (library and gotree acr/asr) vs an independent Sankoff dynamic programme on the model; re-rooting invariance; exact optimal set for DOWNPASS; own cost of unambiguous outputs",
            "Held on all generated (tree, state assignment, algorithm) cases incl. polytomies and engineered ties; sampled.",
            "<= 40/200 tips, <= 6 states, no random resolution; nucleotide ASR. " + BASE_NOTE,
            "DESIGN.md §5 C12"),
    "C13": ("reference-model monitor over conversion chains (Newick<->Nexus(+translate)<->PhyloXML) and an offline checker of the (Id, tree, Err) record sequence of ReadMultiTrees vs ReadTreeReader for four formats; library and gotree reformat",
            "Held on all generated tree lists and documents; sampled.",
            "labels legal in all three formats; p-values and comments outside C13. " + BASE_NOTE,
            "DESIGN.md §5 C13"),
    "C14": ("reference-model monitor: ToDistanceMatrix / AvgDistanceMatrix / CutEdgesMaxLength (library and gotree matrix / brlen cut) vs model path sums and union-find components; thresholds tied to the tree's own lengths (+-1 ulp)",
            "Held on all generated trees x metrics x thresholds; sampled.",
            "absent-support convention of the boot metric estimated from the matrix itself; thresholds <= 0 only without absent lengths. " + BASE_NOTE,
            "DESIGN.md §5 C14"),
    "C15": ("reference-model monitor (distances / tip sets before and after local edits) + twin monitor: a random edit history on one twin of Clone/SubTree while the other twin's text and structure walk are re-observed after every step",
            "Held on all generated graft / merge / insert / single-node / subtree / clone cases and twin histories; sampled.",
            "path sums to 1e-9 relative; Merge's new root branches unasserted. " + BASE_NOTE,
            "DESIGN.md §5 C15"),
    "C16": ("structure walker + index monitor on the tree exactly as the generator returned it (no re-indexing), shape predicates on the reference model, complete enumeration check of AllTopologies (count = (2n-5)!!/(2n-3)!!, all canonical forms distinct); library and gotree generate",
            "Held on every sampled (generator, size, rootedness, seed) incl. all sizes -1..64 and below-minimum sizes; the topology enumerator is checked exhaustively per n (n <= 8 unrooted / 7 rooted, one more in thorough).",
            "valid sizes as stated in the evidence assumptions (2 tips: an error is the expected answer for binary generators). " + BASE_NOTE,
            "DESIGN.md §5 C16"),
    "C17": ("history monitor over the complete NNI enumeration: structure walker + model split symmetric difference after every Apply, byte-identical text after every Undo, per-split proposal multiset and pairwise-distinct canonical neighbours at the end; pseudo-root at every inner node in turn; library and gotree nni",
            "Held on every generated binary tree x root position x both replay modes (inside the callback / collected then replayed in order); sampled trees, complete enumeration per tree. One open known finding (rooted trees whose root has two inner children: the root split gets no proposal) is listed in known_findings.json and announced on every run.",
            "4..200 tips; inner branch = non-trivial split; only apply/undo in enumeration order. " + BASE_NOTE,
            "DESIGN.md §5 C17"),
    "C18": ("process-level differential monitor: R fresh processes of the shipped binary per command template with the same --seed, byte comparison of stdout, exit status and every output file (threaded variants: record lines as multisets); plus repeated in-process library calls after re-seeding",
            "Held on all ~100 offline command templates x input families x R runs and 12 library functions; sampled inputs, map-fed outputs have >= 12 entries so that an order coincidence is < 1e-6 per pair.",
            "--seed always given; network/terminal commands out of reach. " + BASE_NOTE,
            "DESIGN.md §5 C18"),
    "C19": ("exhaustive run-time walk of every flag of every command reachable from cmd.RootCmd (DefValue vs Value before any parsing) + end-to-end differential through the shipped binary: flag omitted vs --flag=<documented default> for every (offline template, omitted flag) pair",
            "The flag walk is exhaustive over the finite flag set (95 commands, ~240 flags); the differential covers every flag of the ~100 offline templates that the template itself does not set.",
            "download/upload/shell/png covered by the walk only; a command whose identical runs differ is reported inconclusive here and left to C18. " + BASE_NOTE,
            "DESIGN.md §5 C19"),
    "C20": ("statistical monitor over seeds: outcome frequencies of the commands executed in-process through cmd.RootCmd (every flag explicit), of their library counterparts, and seed-by-seed agreement with the shipped binary; exact two-sided binomial tail per outcome cell at family-wise level 1e-9 plus a support check",
            "Refutation only: uniformity held at the measured resolution (listed per configuration in the evidence) on 86 configurations (n, k, with/without replacement, keep/remove, permutations of 3 and 4, all labelled topologies on 4-6 tips unrooted / 3-5 rooted).",
            "distributions over the seed; biases below the listed resolution are not claimed; false-alarm probability <= 1e-9 per configuration. " + BASE_NOTE,
            "DESIGN.md §5 C20"),
}

PENDING = {}


def main():
    props = [json.loads(l) for l in open(os.path.join(ROOT, "properties.jsonl"))]
    hook_commits = []
    hp = os.path.join(ROOT, "hook_commits.txt")
    if os.path.exists(hp):
        hook_commits = [l.split()[0] for l in open(hp) if l.strip()]
    checks, na = [], []
    for p in props:
        pid = p["id"]
        if pid in CHECKS:
            tech, text, note, ref = CHECKS[pid]
            checks.append({
                "property_id": pid,
                "quick_cmd": "./check %s quick" % pid,
                "thorough_cmd": "./check %s thorough" % pid,
                "evidence_file": "evidence/%s.json" % pid,
                "replay_cmd_template": "./check %s --replay {path}" % pid,
                "engine": "vworker",
                "level_claimed": {"category": "exploration", "text": text, "design_ref": ref},
                "level_note": note,
                "technique": tech,
            })
        else:
            na.append({"property_id": pid, "reason": PENDING.get(pid, "check not built yet in this revision (planned in DESIGN.md §5; runtime monitoring applies)")})
    m = {
        "version": 1,
        "setup_cmd": "cd /verif && ./setup.sh",
        "hooks": {
            "guard": "verif",
            "enable": "go build -tags verif (the checks build /repo's packages with the tag through the harness module's replace directive)",
            "baseline_off_cmd": "cd /repo && GOFLAGS=-mod=mod GOPROXY=off GOSUMDB=off go test -vet=off -count=1 ./...",
            "source_commits": hook_commits,
            "add_only": True,
        },
        "engines": [{
            "name": "vworker",
            "path": "harness/cmd/vworker",
            "serves_properties": [c["property_id"] for c in checks],
            "kind_free_text": "runtime monitoring: Go worker processes run generated/hostile workloads against the real gotree "
                              "packages (and the real CLI binary) under monitors (reference-model oracles, structure walker, "
                              "event-log checkers, race detector); python driver shards, attributes crashes, applies known_findings.json",
        }],
        "checks": checks,
        "not_applicable": na,
        "notes": "All checks are runtime monitors (exploration level). VERIF_SEED selects the case list; same seed => same cases. "
                 "Exit 2 + 'INCONCLUSIVE' means the run could not decide (build failure, watchdog, non-triviality floor).",
    }
    with open(os.path.join(ROOT, "MANIFEST.json"), "w") as f:
        json.dump(m, f, indent=1)
        f.write("\n")
    try:
        import jsonschema
        jsonschema.validate(m, json.load(open("/root/.vp/MANIFEST.schema.json")))
        print("MANIFEST.json valid: %d checks, %d not_applicable" % (len(checks), len(na)))
    except ImportError:
        print("MANIFEST.json written (jsonschema not importable here; run with python3-vt to validate)")


if __name__ == "__main__":
    main()
