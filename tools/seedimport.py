#!/usr/bin/env python3
"""usage: seedimport.py <seed-dir> <verify-line> <check-result-text>
Copies a confirmed seeded change into /verif/seeded/<name>/ and records what was run."""
import json, os, shutil, sys
src, verify, detect = sys.argv[1], sys.argv[2], sys.argv[3]
name = os.path.basename(src.rstrip('/'))
dst = os.path.join('/verif/seeded', name)
os.makedirs(dst, exist_ok=True)
for f in ('patch.diff', 'demo_test.go'):
    shutil.copyfile(os.path.join(src, f), os.path.join(dst, f))
try:
    meta = json.load(open(os.path.join(src, 'meta.json')))
except Exception:
    meta = {}
meta['breaks_property'] = meta.get('property', name.split('-')[0])
meta['confirmed_in_scratch_worktree'] = verify
meta['what_was_run'] = ["tools/seedverify.sh %s  (apply, go build, full suite, demo with / without the change)" % src,
                        "tools/seedtest.sh %s/patch.diff %s  (apply to /repo, ./check, revert)" % (dst, meta['breaks_property'])]
meta['check_result'] = detect
json.dump(meta, open(os.path.join(dst, 'meta.json'), 'w'), indent=1, ensure_ascii=False)
print("imported", name)
