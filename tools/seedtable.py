#!/usr/bin/env python3
"""Regenerates the seeded-changes appendix of DESIGN.md from seeded/*/meta.json."""
import glob, json, os, re
root = os.path.dirname(os.path.dirname(os.path.abspath(__file__)))
metas = []
for p in sorted(glob.glob(os.path.join(root, 'seeded', '*', 'meta.json'))):
    m = json.load(open(p))
    metas.append((os.path.basename(os.path.dirname(p)), m))
n = len(metas)
missed = sum(1 for _, m in metas if m['check_result'].strip().startswith('MISSED'))
nd = [k for k, m in metas if m['check_result'].strip().startswith(('NOT CAUGHT', 'NOT DETECTED'))]
other = [k for k, m in metas if m['check_result'].strip().startswith(('Not visible', 'Not seen'))]
def cell(s, w):
    s = re.sub(r'\s+', ' ', s).replace('|', '\\|').strip()
    return s if len(s) <= w else s[:w] + '…'
head = f"""## Appendix: Seeded changes (independent sub-agents) and which checks catch them

Each change was produced by a fresh sub-agent that saw only the property text and a scratch worktree; it compiles,
passes the 84 tests, and its demonstration fails with it and passes without it (`tools/seedverify.sh`, confirmed
here in a scratch worktree). `tools/seedtest.sh` applies it to /repo, runs the check, and reverts. Seven rounds, {n} changes
(variants a/b; c/d with different mechanisms; e/f aimed at cooperating sites, operation sequences on one tree object, the
command layer and boundary inputs; g/h, i/j, k/l and m/n aimed at whatever the earlier ones had not used: later trees of a file,
state left on an object by an earlier call, absent versus zero values, fast paths for special shapes, counts beyond one byte,
half-done results reported as success, layouts and spellings other programs use). {missed} were missed by the first
version of a check and led to a stronger workload (marked MISSED … After …); all of those are caught by the quick tier at
VERIF_SEED=1 now; `tools/seedregress.py` re-applies every change to a scratch copy of the repository and re-runs the check(s)
named here (last full run, over the first 200: all 196 changes outside the documented non-detections reported; four old patches needed a
`patch.rebased.diff` because later fix commits touched the same lines). {len(other)} changes ({', '.join(other)}) are not visible to the check of the property they were
filed under and are decided by another check, named in their row (thread counts and interleavings by C11, a reverted fix by C03).
{len(nd)} are not detected: C04-f, C05-d, C05-n, C06-m, C15-d, C16-h and C16-n because the changed behaviour lies outside what the property
states (an oracle for it would alarm on code where the property holds, or no user-reachable execution shows it). What the misses taught, as generic workload
rules now applied across the checks: give commands files of SEVERAL trees with DIFFERENT tip sets and sizes; offer inputs as
file / gzip / stdin / Nexus / PhyloXML and let commands write to -o files; combine options; pass tree objects WITH A PAST
(indexed, then renamed or re-rooted) to library functions; keep one generator/handle across edits; undo later rather than at
once and use a handle twice; include negative and absent lengths, labelled roots, numeric tip names and numeric state labels,
chained rename maps, misleading file extensions, non-monophyletic outgroups, completely unresolved trees, the root as "an
inner node", results smaller than the domain (two tips), thread counts above the number of branches, several concurrent
callers of plain functions, every spelling of an option (--name value, --name=value, -n value), every legal seed (0, negative),
list files in every layout the command accepts (comma-separated, one very long line, no final newline, empty lines);
documents in the layouts OTHER programs write (Nexus translate tables with commas and ';' after the last pair); values in
documents replaced by hostile ones (-4, 2^63-1, null) while the document stays well-formed; names related to each other
(same letters in another case, prefixes, _1/_10/_01); hundreds of small trees (255, 256, 257, 300, 1000) and nodes with more
than 255 neighbours; several erroneous trees in one stream and errors arriving through the real reader; the same argument
slices passed to a second call; objects re-rooted or resolved before the operation under test, with the model read off the
object (the text of a re-rooted tree can hide a support behind a node name); gzip files of several members, Windows
line ends, replicate files whose trees all carry one name; tree identifiers other than 0..n-1; colliding keys engineered for
hash functions; a second option moved while the one under test is toggled; library preparations exactly as the
documentation words them.

| seed | change | result |
|---|---|---|
"""
rows = ''.join(f"| {k} | {cell(m['summary'], 170)} | {cell(m['check_result'], 400)} |\n" for k, m in metas)
path = os.path.join(root, 'DESIGN.md')
s = open(path).read()
i = s.index('## Appendix: Seeded changes')
open(path, 'w').write(s[:i] + head + rows)
print(n, 'seeds;', missed, 'missed first;', 'non-detections', nd, '; elsewhere', other)
