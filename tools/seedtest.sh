#!/bin/bash
# usage: tools/seedtest.sh <patch.diff> <Cxx> [tier]   — applies a seeded change to /repo, runs the check, reverts.
set -u
patch=$1; prop=$2; tier=${3:-quick}
cd /repo || exit 9
if [ -n "$(git status --porcelain --untracked-files=no)" ]; then echo "repo not clean"; exit 9; fi
git apply "$patch" || { echo "patch does not apply"; exit 9; }
cd /verif
./check "$prop" "$tier" > /tmp/seedtest.$$.out 2> /tmp/seedtest.$$.err; rc=$?
git -C /repo checkout -- . 
echo "rc=$rc"; grep -c '^VIOLATION' /tmp/seedtest.$$.out | sed 's/^/violation lines: /'; head -4 /tmp/seedtest.$$.out | cut -c1-200; grep 'kind=' /tmp/seedtest.$$.err | head -4 | cut -c1-300; tail -1 /tmp/seedtest.$$.err | cut -c1-200
rm -f /tmp/seedtest.$$.out /tmp/seedtest.$$.err
