#!/bin/bash
# usage: tools/seedverify.sh <seed-dir> — confirms in a scratch worktree that a seeded change compiles, passes the
# existing suite, and that its demonstration fails with the change and passes without. Prints one summary line.
set -u
d=$1; name=$(basename "$d")
export GOFLAGS=-mod=mod GOPROXY=off GOSUMDB=off GOTOOLCHAIN=local
wt=/tmp/wt/verify-$name
git -C /repo worktree add -q --detach "$wt" HEAD 2>/dev/null || { echo "$name: cannot create worktree"; exit 9; }
cleanup() { git -C /repo worktree remove --force "$wt" >/dev/null 2>&1; }
trap cleanup EXIT
cd "$wt"
git apply "$d/patch.diff" || { echo "$name: APPLY-FAILED"; exit 1; }
go build ./... > /tmp/sv.$name.log 2>&1 || { echo "$name: BUILD-FAILED"; exit 1; }
# tests/TestEdgeNeighbor is flaky on the pinned commit itself (a Yule tree whose root has a tip child, ~10 % of runs): retry
suite=FAIL
for try in 1 2 3; do
  if go test -vet=off -count=1 ./... > /tmp/sv.$name.suite 2>&1; then suite=pass; break; fi
  grep -q -- '--- FAIL' /tmp/sv.$name.suite && ! grep -- '--- FAIL' /tmp/sv.$name.suite | grep -vq TestEdgeNeighbor || break
done
cat /tmp/sv.$name.suite >> /tmp/sv.$name.log; rm -f /tmp/sv.$name.suite
fn=$(grep -o 'func TestDemo[A-Za-z0-9_]*' "$d/demo_test.go" | head -1 | sed 's/func //')
cp "$d/demo_test.go" tests/zz_demo_${name//-/_}_test.go
with=pass; go test -vet=off -count=1 -run "^$fn\$" ./tests/ >> /tmp/sv.$name.log 2>&1 || with=FAIL
git apply -R "$d/patch.diff"
without=pass; go test -vet=off -count=1 -run "^$fn\$" ./tests/ >> /tmp/sv.$name.log 2>&1 || without=FAIL
echo "$name: suite=$suite demo_with_change=$with demo_without=$without ($fn)"
rm -f /tmp/sv.$name.log
