#!/bin/sh
# Runs the repository's 84 baseline tests with the verif tag OFF and counts passes.
export GOFLAGS=-mod=mod GOPROXY=off GOSUMDB=off GOTOOLCHAIN=local
cd /repo && go test -vet=off -count=1 -json ./... 2>/dev/null | python3 -c "
import sys,json
p=f=0
for l in sys.stdin:
    try: e=json.loads(l)
    except ValueError: continue
    if e.get('Test') and '/' not in e['Test']:
        if e.get('Action')=='pass': p+=1
        if e.get('Action')=='fail': f+=1; print('FAIL',e['Package'],e['Test'])
print('baseline: pass=%d fail=%d'%(p,f))
sys.exit(0 if (p>=84 and f==0) else 1)"
