"""Driver: builds the workers from /repo's working tree, shards the PRNG-determined case list over
child processes, attributes crashes, applies known_findings.json, writes evidence and replay files."""
import json, os, re, signal, subprocess, sys, time, hashlib, shutil, tempfile, threading
from concurrent.futures import ThreadPoolExecutor

ROOT = os.path.dirname(os.path.dirname(os.path.abspath(__file__)))
HARNESS = os.path.join(ROOT, "harness")
BUILD = os.path.join(ROOT, ".build")
REPO = os.environ.get("VERIF_REPO", "/repo")
NPROC = int(os.environ.get("VERIF_JOBS", str(os.cpu_count() or 4)))

GOENV = dict(os.environ, GOFLAGS="-mod=mod", GOPROXY="off", GOSUMDB="off", GOTOOLCHAIN="local",
             CGO_ENABLED=os.environ.get("CGO_ENABLED", "1"))


def log(*a):
    print(*a, file=sys.stderr, flush=True)


def run(cmd, cwd, env=GOENV, timeout=1800):
    p = subprocess.run(cmd, cwd=cwd, env=env, stdout=subprocess.PIPE, stderr=subprocess.STDOUT, timeout=timeout)
    return p.returncode, p.stdout.decode("utf-8", "replace")


def build(need_cli, race):
    """Rebuild everything from /repo's current working tree (go's build cache makes this cheap)."""
    os.makedirs(BUILD, exist_ok=True)
    try:
        shutil.copyfile(os.path.join(REPO, "go.sum"), os.path.join(HARNESS, "go.sum"))
    except OSError as e:
        return "cannot copy go.sum: %s" % e
    out = "vworker.race" if race else "vworker"
    modfile = []
    if os.path.realpath(REPO) != "/repo":
        # scratch copy of the repository (sensitivity runs, background sweeps): same module, other replace target
        with open(os.path.join(HARNESS, "go.mod")) as f:
            mod = f.read().replace("=> /repo", "=> " + os.path.realpath(REPO))
        with open(os.path.join(BUILD, "alt.mod"), "w") as f:
            f.write(mod)
        shutil.copyfile(os.path.join(REPO, "go.sum"), os.path.join(BUILD, "alt.sum"))
        modfile = ["-modfile=" + os.path.join(BUILD, "alt.mod")]
    cmd = ["go", "build", "-tags", "verif"] + modfile + (["-race"] if race else []) + ["-o", os.path.join(BUILD, out), "./cmd/vworker"]
    rc, txt = run(cmd, HARNESS)
    if rc != 0:
        return "go build vworker failed:\n" + txt[-3000:]
    if need_cli:
        rc, txt = run(["go", "build", "-tags", "verif", "-o", os.path.join(BUILD, "gotree"), "."], REPO)
        if rc != 0:
            return "go build gotree failed:\n" + txt[-3000:]
        if race:
            # the shipped command itself under the race detector (its own goroutines: readers, printers, worker pools)
            rc, txt = run(["go", "build", "-race", "-tags", "verif", "-o", os.path.join(BUILD, "gotree.race"), "."], REPO)
            if rc != 0:
                return "go build -race gotree failed:\n" + txt[-3000:]
    return None


def load_known(prop):
    path = os.path.join(ROOT, "known_findings.json")
    if not os.path.exists(path):
        return []
    with open(path) as f:
        k = json.load(f)
    return [e for e in k.get("open", []) if e.get("property") == prop]


def covered(viol, known):
    for e in known:
        if e.get("kind") != viol.get("kind"):
            continue
        m = viol.get("match") or {}
        if all(str(m.get(k)) == str(v) for k, v in (e.get("match") or {}).items()):
            return e
    return None


class StderrKeeper(threading.Thread):
    """Drains a child's stderr, keeping its first 512 KiB and its last 1 MiB (the middle is counted, not kept)."""
    HEAD, TAIL = 512 * 1024, 1024 * 1024

    def __init__(self, pipe):
        super().__init__(daemon=True)
        self.pipe, self.head, self.tail, self.total = pipe, b"", b"", 0
        self.start()

    def run(self):
        while True:
            b = self.pipe.read1(1 << 20) if hasattr(self.pipe, "read1") else self.pipe.read(1 << 16)
            if not b:
                break
            self.total += len(b)
            if len(self.head) < self.HEAD:
                k = self.HEAD - len(self.head)
                self.head += b[:k]
                b = b[k:]
            if b:
                self.tail = (self.tail + b)[-self.TAIL:]

    def text(self):
        self.join(timeout=30)
        dropped = self.total - len(self.head) - len(self.tail)
        mid = ("\n[... %d bytes of stderr not kept ...]\n" % dropped) if dropped > 0 else ""
        return self.head.decode("utf-8", "replace") + mid + self.tail.decode("utf-8", "replace")


def panic_sig(stderr):
    """Reduce a fatal stderr to 'message-class @ innermost gotree function'."""
    msg = ""
    m = re.search(r"^(panic: .*|fatal error: .*)$", stderr, re.M)
    if m:
        msg = m.group(1)
    msg = re.sub(r"\[.*", "", msg)
    msg = re.sub(r" with length.*| out of range.*", "", msg).strip()[:70]
    fn = ""
    start = m.end() if m else 0
    for l in stderr[start:].splitlines():
        l = l.strip()
        if l.startswith("github.com/evolbioinfo/gotree/"):
            fn = l[len("github.com/evolbioinfo/gotree/"):]
            fn = fn[:fn.rfind("(")] if "(" in fn else fn
            break
    return (msg + " @ " + fn).strip()


class Runner:
    def __init__(self, prop, tier, seed, meta, exe):
        self.prop, self.tier, self.seed, self.meta, self.exe = prop, tier, seed, meta, exe
        self.tmp = tempfile.mkdtemp(prefix="verif-%s-" % prop, dir=os.environ.get("VERIF_SCRATCH", "/tmp"))
        self.chunk_timeout = int(os.environ.get("VERIF_CHUNK_TIMEOUT", "1500" if tier == "thorough" else "600"))

    def run_range(self, a, b):
        """Run cases [a,b); restart after a dead child. Returns (observations, crashes, timeouts)."""
        obs, crashes, timeouts = [], [], []
        cur = a
        while cur < b:
            wd = tempfile.mkdtemp(prefix="w", dir=self.tmp)
            outp, errp = os.path.join(wd, "out"), os.path.join(wd, "err")
            env = dict(GOENV, VERIF_GOTREE=os.path.join(BUILD, "gotree"), VERIF_TMP=wd, VERIF_REPO=REPO, VERIF_GOTREE_RACE=os.path.join(BUILD, "gotree.race"),
                       GORACE="halt_on_error=0 log_path=%s" % os.path.join(wd, "race"), GOTRACEBACK="all")
            cmd = [self.exe, "-prop", self.prop, "-tier", self.tier, "-seed", str(self.seed),
                   "-from", str(cur), "-to", str(b)]
            timed_out = False
            with open(outp, "wb") as fo:
                # stderr goes through a limiter: a code path that spins while logging can write tens of gigabytes
                p = subprocess.Popen(cmd, stdout=fo, stderr=subprocess.PIPE, env=env, cwd=wd)
                keeper = StderrKeeper(p.stderr)
                try:
                    p.wait(timeout=self.chunk_timeout)
                except subprocess.TimeoutExpired:
                    timed_out = True
                    p.send_signal(signal.SIGQUIT)
                    try:
                        p.wait(timeout=20)
                    except subprocess.TimeoutExpired:
                        p.kill()
                        p.wait()
            last_begin, done = None, False
            with open(outp, "r", errors="replace") as f:
                for line in f:
                    if line.startswith("BEGIN "):
                        last_begin = int(line.split()[1])
                    elif line.startswith("END "):
                        _, idx, js = line.rstrip("\n").split(" ", 2)
                        try:
                            obs.append(json.loads(js))
                        except ValueError:
                            obs.append({"idx": int(idx), "inconclusive": "unparsable observation"})
                        last_begin = None
                    elif line.startswith("DONE"):
                        done = True
            stderr = keeper.text()
            blob = ""
            try:
                with open(os.path.join(wd, "case.blob"), "r", errors="replace") as f:
                    blob = f.read(200000)
            except OSError:
                pass
            races = []
            for fn in os.listdir(wd):
                if fn.startswith("race"):
                    with open(os.path.join(wd, fn), "r", errors="replace") as f:
                        races.append(f.read())
            if races:
                # race reports of a chunk are attached to the run as a whole (the detector is asynchronous)
                crashes.append({"idx": cur, "type": "race", "stderr": "\n".join(races)[:200000], "rc": p.returncode})
            shutil.rmtree(wd, ignore_errors=True)
            if done and last_begin is None:
                break
            victim = last_begin if last_begin is not None else cur
            if timed_out:
                timeouts.append({"idx": victim, "stderr": stderr[-6000:], "input": blob})
            else:
                crashes.append({"idx": victim, "type": "death", "rc": p.returncode, "stderr": stderr[-12000:], "input": blob})
            cur = victim + 1
        return obs, crashes, timeouts

    def cleanup(self):
        shutil.rmtree(self.tmp, ignore_errors=True)


def get_meta(exe, prop, tier, seed):
    rc, txt = run([exe, "-prop", prop, "-tier", tier, "-seed", str(seed), "-meta"], HARNESS)
    if rc != 0:
        raise RuntimeError("vworker -meta failed: " + txt)
    return json.loads(txt.strip().splitlines()[-1])


RACE_RE = re.compile(r"WARNING: DATA RACE")


def race_reports(text):
    """Split a race log into reports; de-duplicate by the pair of outermost gotree entry points of the two
    stacks (then the first report of each pair is kept as the witness, with the innermost frames in the key text)."""
    out = {}
    for blk in text.split("==================\n"):
        if "WARNING: DATA RACE" not in blk:
            continue
        outer, inner = [], []
        for part in re.split(r"\n\n", blk):
            if part.lstrip().startswith(("Read at", "Write at", "Previous read", "Previous write", "WARNING: DATA RACE")):
                fr = []
                for l in part.splitlines():
                    l = l.strip()
                    if l.startswith("github.com/evolbioinfo/gotree/") and "verifhook" not in l:
                        fn = l[len("github.com/evolbioinfo/gotree/"):]
                        fr.append(fn[:fn.rfind("(")] if "(" in fn else fn)
                if fr:
                    inner.append(fr[0])
                    outer.append(re.sub(r"\.(func\d+|gowrap\d+)(\.\d+)*$", "", fr[-1]))
        if not outer:
            continue  # no gotree frame: not ours
        key = " <-> ".join(sorted(set(outer[:2])))
        out.setdefault(key, "innermost frames: %s\n%s" % (" <-> ".join(inner[:2]), blk[:4000]))
    return out


def main(argv):
    if len(argv) < 2:
        log(__doc__)
        return 2
    prop = argv[0]
    seed = int(os.environ.get("VERIF_SEED", "1") or "1")
    replay = None
    if argv[1] == "--replay":
        with open(argv[2]) as f:
            replay = json.load(f)
        tier, seed = replay.get("tier", "quick"), int(replay.get("seed", seed))
    else:
        tier = argv[1]
        if tier not in ("quick", "thorough"):
            log("tier must be quick or thorough")
            return 2
    t0 = time.time()

    # which builds are needed is a property of the check; ask a plain build first
    err = build(False, False)
    if err:
        print("INCONCLUSIVE build-failed\n" + err)
        return 2
    exe = os.path.join(BUILD, "vworker")
    meta = get_meta(exe, prop, tier, seed)
    if meta.get("needs_cli") or meta.get("race"):
        err = build(meta.get("needs_cli"), meta.get("race"))
        if err:
            print("INCONCLUSIVE build-failed\n" + err)
            return 2
        if meta.get("race"):
            exe = os.path.join(BUILD, "vworker.race")
    runner = Runner(prop, tier, seed, meta, exe)
    known = load_known(prop)

    if replay is not None:
        idx = int(replay["idx"])
        obs, crashes, timeouts = runner.run_range(idx, idx + 1)
        runner.cleanup()
        bad = False
        for o in obs:
            print(json.dumps(o, indent=1, ensure_ascii=False))
            bad = bad or bool(o.get("viols"))
        for c in crashes:
            if c["type"] == "race" and not race_reports(c["stderr"]):
                continue
            print("CHILD %s rc=%s\n%s" % (c["type"], c.get("rc"), c["stderr"][-4000:]))
            bad = True
        for t in timeouts:
            print("TIMEOUT\n" + t["stderr"][-3000:])
        return 1 if bad else 0

    total = int(meta["count"])
    chunk = max(1, int(meta.get("chunk") or 100))
    # keep all cores busy: no more than total/NPROC cases per child
    chunk = max(1, min(chunk, (total + NPROC - 1) // NPROC))
    ranges = [(a, min(total, a + chunk)) for a in range(0, total, chunk)]
    all_obs, all_crashes, all_timeouts = [], [], []
    with ThreadPoolExecutor(max_workers=NPROC) as ex:
        for obs, crashes, timeouts in ex.map(lambda r: runner.run_range(*r), ranges):
            all_obs += obs
            all_crashes += crashes
            all_timeouts += timeouts
    runner.cleanup()

    # ---- collect violations -------------------------------------------------------------------
    viols = []  # (idx, viol dict)
    for o in all_obs:
        for v in o.get("viols") or []:
            viols.append((o["idx"], v, o))
    race_seen = {}
    for c in all_crashes:
        if c["type"] == "race":
            for key, blk in race_reports(c["stderr"]).items():
                if key not in race_seen:
                    race_seen[key] = blk
                    viols.append((c["idx"], {"kind": "data_race", "detail": blk, "match": {"sig": key}}, None))
            continue
        sig = panic_sig(c["stderr"])
        kind = "process_death"
        if "verif: post-EOF read limit" in c["stderr"]:
            kind, sig = "nonterminating", "post-EOF reads without bound"
        elif c.get("rc") == 97:
            kind = "cpu_bound_exceeded"
        viols.append((c["idx"], {"kind": kind, "detail": "child exited with %s\n%s" % (c.get("rc"), c["stderr"][-5000:]),
                                 "match": {"sig": sig}, "input": c.get("input")}, None))
    inconclusive = [o for o in all_obs if o.get("inconclusive")]
    for t in all_timeouts:
        inconclusive.append({"idx": t["idx"], "inconclusive": "wall-clock watchdog"})

    os.makedirs(os.path.join(ROOT, "replay"), exist_ok=True)
    printed, uncovered, known_hits = {}, 0, {}
    for idx, v, o in sorted(viols, key=lambda x: x[0]):
        e = covered(v, known)
        if e is not None:
            known_hits[e["id"]] = known_hits.get(e["id"], 0) + 1
            continue
        uncovered += 1
        sig = v["kind"] + "|" + json.dumps(v.get("match") or {}, sort_keys=True)
        if sig in printed:
            printed[sig]["more"] += 1
            continue
        name = "%s-%s-s%d-%s-%d.json" % (prop, tier, seed, re.sub(r"[^A-Za-z0-9_]+", "_", v["kind"])[:40], idx)
        path = os.path.join("replay", name)
        with open(os.path.join(ROOT, path), "w") as f:
            json.dump({"property": prop, "tier": tier, "seed": seed, "idx": idx, "kind": v["kind"],
                       "match": v.get("match"), "detail": v.get("detail"), "input": v.get("input"),
                       "class": (o or {}).get("class"), "sample": (o or {}).get("sample")}, f, indent=1, ensure_ascii=False)
        printed[sig] = {"path": path, "more": 0, "kind": v["kind"], "detail": (v.get("detail") or "")[:300]}
    nprint = 0
    for sig, p in printed.items():
        if nprint < 20:
            print("VIOLATION property=%s replay=%s" % (prop, p["path"]))
            log("  kind=%s (+%d more) %s" % (p["kind"], p["more"], p["detail"].replace("\n", " | ")))
        nprint += 1
    for e in known:
        # a listed finding is announced on every run (the file is never written at run time)
        print("KNOWN-FINDING: property=%s %s%s" % (prop, e.get("what", e.get("id")),
              "" if e["id"] in known_hits else " [not re-observed in this run]"))

    # ---- evidence -----------------------------------------------------------------------------
    fps, classes, events, sets = set(), {}, {}, {}
    asserts = 0
    samples = []
    for o in all_obs:
        if o.get("nontrivial") and o.get("fp"):
            fps.add(o["fp"])
        classes[o.get("class", "")] = classes.get(o.get("class", ""), 0) + 1
        asserts += o.get("asserts", 0)
        for k, n in (o.get("events") or {}).items():
            events[k] = events.get(k, 0) + n
        for k, vs in (o.get("sets") or {}).items():
            sets.setdefault(k, set()).update(vs)
    step = max(1, len(all_obs) // 6)
    for o in sorted(all_obs, key=lambda x: x["idx"])[::step][:6]:
        samples.append({"idx": o["idx"], "class": o.get("class"), "case": o.get("sample"), "asserts": o.get("asserts"),
                        "events": o.get("events")})
    evaluations = len(all_obs)
    frac = meta.get("min_nontrivial_frac") or 0.25
    floor = max(2, min(20, total), int(frac * total))
    if len(classes) > 60:
        top = sorted(classes.items(), key=lambda kv: -kv[1])
        classes = dict(top[:60])
        classes["(other classes)"] = sum(n for _, n in top[60:])
    wall = time.time() - t0
    status = "held" if not known_hits else "held apart from %d listed known finding(s)" % len(known_hits)
    rc = 0
    incl_frac = len(inconclusive) / max(1, total)
    if uncovered:
        status, rc = "violated", 1
    elif incl_frac >= 0.01 and len(inconclusive) > 0:
        status, rc = "inconclusive: %d inconclusive cases" % len(inconclusive), 2
    elif len(fps) < floor:
        status, rc = "inconclusive: only %d distinct non-trivial cases (floor %d)" % (len(fps), floor), 2
    elif evaluations + len([c for c in all_crashes if c["type"] == "death"]) + len(all_timeouts) < total:
        status, rc = "inconclusive: %d of %d cases executed" % (evaluations, total), 2
    ev = {
        "property_id": prop, "tier": tier, "seed": seed, "level": "exploration",
        "coverage": {
            "evaluations": evaluations,
            "distinct_nontrivial": len(fps),
            "rule": meta.get("rule", ""),
            "samples": samples or [{"note": "no case completed"}],
            "cases_planned": total,
            "oracle_assertions_evaluated": asserts,
            "class_histogram": classes,
            "event_counters": events,
            "distinct_values": {k: len(v) for k, v in sets.items() if not k.startswith("list:")},
            "observed_lists": {k[5:]: sorted(v)[:120] for k, v in sets.items() if k.startswith("list:")},
            "inconclusive_cases": len(inconclusive),
            "inconclusive_reasons": [str(o.get("inconclusive"))[:400] for o in inconclusive[:5]],
            "child_deaths": len([c for c in all_crashes if c["type"] == "death"]),
            "race_reports_distinct": len(race_seen),
            "known_findings_reobserved": known_hits,
            "nontrivial_floor": floor,
            "verdict": status,
            "exhaustive": bool(meta.get("exhaustive", False)),
        },
        "assumptions": meta.get("assumptions") or [],
        "wall_s": round(wall, 2),
        "violations": uncovered,
    }
    os.makedirs(os.path.join(ROOT, "evidence"), exist_ok=True)
    with open(os.path.join(ROOT, "evidence", prop + ".json"), "w") as f:
        json.dump(ev, f, indent=1, ensure_ascii=False, sort_keys=True)
    log("%s %s seed=%d: %s; cases=%d distinct_nontrivial=%d asserts=%d inconclusive=%d known=%s wall=%.1fs"
        % (prop, tier, seed, status, evaluations, len(fps), asserts, len(inconclusive), known_hits, wall))
    if rc == 2:
        print("INCONCLUSIVE " + status)
    return rc
